"""C08 — Configuration queries always reflect the latest updates.

Implementation driven (in-process, real code): one live FlowIRConcrete per history; the mutators
set_component_variable / delete_component_variable / set_component_option / remove_component_option (also through
FlowIRExperimentConfiguration.setOptionForNode / removeOptionForNode and WorkflowGraph.setOptionForNode /
removeOptionForNode), update_component, delete_component, add_component, set_global_variable, set_stage_variable,
set_platform_global_variable, set_platform_stage_variable, get_platform_global_variables(return_copy=False) and
get_platform_stage_variables(return_copy=False) followed by one write, interleaved with
get_component_configuration(comp_id, include_default=True, platform=p) and with in-place mutation of the returned
configuration.

After every query the answer is compared with
  (b) FlowIRConcrete(live.raw(), platform, {}).get_component_configuration(...)   -- the property predicate
  (a) coq/Cache/Model.v (trace: observation + cache labels after every operation) -- the correspondence.

Also in the histories: MutateArg (the harness keeps every object it hands to a mutator and later scrambles it in
place), MutateResult on what the other copy-returning accessors hand out (Driver.read_accessor), LiveWrite (a write
through get_components(return_copy=False)), Invalidate (invalidate_cache_for_component), LiveVarWrite (a write
through a kept get_platform_global_variables(p, return_copy=False)).  Histories with a live write that is not followed
at once by the invalidation of that component are outside the property (in_domain = Cache.Model.ok_hist): they are
compared with the model only.  coq/Cache/Generated.v (table of built-in defaults) is rewritten from the running code
when this module is imported.

ReadOnly: every OTHER read-only call of the interface (Driver.read_only: get_component_configuration in its not
fully resolved modes - raw, include_default=False, is_primitive=True, inject_missing_fields=False - directly and
through configurationForNode / getOptionForNode of conf.py and graph.py, get_component_variable_references,
instance(platform, ...), replicate(platform), validate(), copy(), the get_*_blueprint accessors, the environment
accessors, get_stage_description, get_component_identifiers ...).  Model: no-op on description and cache.  Predicate:
raw() before and after every read-only operation of a history (Query, MutateResult, MutateArg, Invalidate, ReadOnly) is
the same description - without it the from-scratch comparison would be made against a description the read-only call
itself rewrote.  The generated documents hold STAGE-level blueprints on the default platform and on the others.

ARGUMENT IDENTITY (round 5): the object handed to update_component / set_component_option / add_component is, in a
share of the calls, not a fresh dictionary but live state of the object: THE definition the description stores for
the component (what get_component(comp_id, return_copy=False) or an entry of get_components(return_copy=False) is),
THE section that is being replaced or the same section of another component, THE dictionary of the global variables of
a platform (a kept get_platform_global_variables(p, return_copy=False)), or a new dictionary whose sections ARE live
sections (Driver.resolve_arg; recipes {'@live': ...} / {'@share': ...} in the histories).  Model: the operation with
the argument's VALUE at the time of the call (play() returns the history written that way: rops).  Predicate, part 3:
the description after such a call equals the one the same call with an equal, independent copy produces on an object
built from the same description.  A write through a live reference may now be committed by any mutator of that
component instead of invalidate_cache_for_component (in_domain = Cache.Model.ok_hist with Cache.Model.commits), e.g.
edit the live definition in place and hand it back to update_component.

THE ACTIVE PLATFORM (round 6): the histories also hold configure_platform(p) (p a platform of the document, None, '',
rarely an unknown one) and calls whose platform argument is OMITTED (None or ''): the fully resolved query, the
platform setters set_platform_global_variable / set_platform_stage_variable, the live getters
get_platform_global_variables / get_platform_stage_variables(return_copy=False), and the platform argument of every
read-only call and accessor (ReadOnly, MutateResult).  In a history an omitted platform is written None / ''; the
model is told `Im <call>` (Cache.Model.astep: the call for the platform active at that moment) and
`ConfigurePlatform`.  Predicate: the object built from scratch for the comparison is constructed FOR THE PLATFORM
THAT IS ACTIVE at that point of the history (the harness follows the configure_platform calls itself) and asked the
same question with the same - possibly omitted - platform argument; configure_platform must leave raw() alone.

BOUNDARY VALUES OF THE ARGUMENTS (round 7): the values handed to the mutators include EMPTY lists / dictionaries and
sections that hold one (set_component_option '#references' [] / '#executors.pre' [] / '#workflowAttributes.shutdownOn' []
/ '#variables' {} / '#override' {} ..., through the three entry points; variables set to [] / {}; definitions with empty
sections handed to update_component / add_component) and list-valued options.  In half of these calls the caller goes
on to fill ITS OWN object right after a query stored the resolved configuration (query, MutateArg of everything it
handed in, query): a mutator that keeps the caller's object for 'plain' values (nothing to copy) shows as a read-only
step that changed raw() and as a stored answer that differs from the from-scratch one.  RefPlatGlobal / RefPlatStage
(the caller's own write through a live dictionary) store a value of the caller's own, so that a later MutateArg is not
one more live write.  Family 5 of the exhaustive histories + corpus empty_container_args.json.

Not covered: operations that rename a component (option route `name`/`stage`, update_component with another
identity); values the C04 model does not interpret (array indices, interpreter, memory/qos converters)."""
import copy
import glob
import itertools
import json
import os
import re
import sys
import types

import common
from common import cstr, cZ, clist, cjv, cnat

PROP = 'C08'
COQ_DIR = 'Cache'
GEN_ERROR = None


def generate():
    """(re)write coq/Cache/Generated.v from the running code: the table of built-in defaults the resolution starts
    from (FlowIR.default_component_structure()) and the configuration of an empty component
    (FlowIR.inject_default_values_to_component({})), as Gallina data.  Runs when this module is imported, i.e. before
    the proofs are built: C08_fresh_real is stated for real_dflt and check_case evaluates the model with it."""
    global GEN_ERROR
    path = os.path.join(common.COQ, COQ_DIR, 'Generated.v')
    try:
        import experiment.model.frontends.flowir as F
        dflt = F.FlowIR.default_component_structure()
        base = F.FlowIR.inject_default_values_to_component({})
        txt = '\n'.join([
            '(* GENERATED by harness/c08.py from the code under test on every check run - do not edit.',
            '   real_dflt = FlowIR.default_component_structure(); real_base = FlowIR.inject_default_values_to_component({}) *)',
            'From Coq Require Import String List ZArith.', 'Import ListNotations.',
            'Require Import V.Lib.JTree.', 'Open Scope string_scope.', '',
            'Definition real_dflt : jv :=\n  %s.' % cjv(dflt), '',
            'Definition real_base : jv :=\n  %s.' % cjv(base), ''])
    except Exception as e:
        GEN_ERROR = '%s: %s' % (type(e).__name__, e)
        return
    old = open(path).read() if os.path.exists(path) else None
    if old != txt:
        open(path, 'w').write(txt)


generate()
ASSUMPTIONS = [
    'from-scratch resolution is V.Conf.Model.resolve (C04 model, same restrictions: single-pass interpolation, no '
    'array indices / interpreter / memory converters); the table of built-in defaults is read from the running code',
    'the model starts from the document the constructor of FlowIRConcrete produced (raw() right after construction)',
    'operations never change the identity of a component (no option route starting with name/stage, a replacement '
    'definition carries the identity it replaces); platform names of queries hold no colon in the theorems '
    '(the colon stream of the generator exercises the open finding F8b)',
    'a caller changing an object it handed to a mutator is not a mutator (after fix 50859be it cannot change the '
    'description); a write through a live reference (return_copy=False, insert_copy=False) belongs to the histories of '
    'the property only when it is followed at once by invalidate_cache_for_component of that component (ok_hist)',
    'exceptions are compared by class (and variable name for FlowIRVariableUnknown / FlowIRVariableInvalid)',
    'the read-only calls other than the plain query (ReadOnly) are compared with the model as no-ops on description '
    'and cache labels; what they return is not modelled (their results are only scrambled in place by the caller)',
    'a mutator handed an object that is (shares parts with) live state of the object means the call with the value of '
    'that object at the time of the call; the harness computes that value (a deep copy taken just before the call)',
    'the active platform of the object is followed by the harness itself (constructor argument, then `p or default` at '
    'every configure_platform); a call whose platform argument is None or the empty text is told to the model as the '
    'implicit call (Im), and the object built from scratch for the comparison is constructed for the active platform',
]
HEADER = 'Require Import V.Lib.JTree V.Conf.Model V.Cache.Model V.Cache.Generated.\nOpen Scope string_scope.'
CORPUS = os.path.join(os.path.dirname(os.path.abspath(__file__)), 'corpus', 'c08')

PREFIX_NAMES = ['foo', 'foo1', 'foo10', 'fo', 'foo-x', 'foo_1', 'bar']
META_NAMES = ['a+b', 'a(b', 'a[b', 'a.b', 'a*', 'a|b', 'a\\b', 'a$', '^a', 'a?b', 'a{2}', 'a b', 'a)b', 'a]',
              'x:stage1:foo', 'foo', 'a+', '(a)', 'a\nb', '.*', 'a++b']
STAGES = [0, 1, 10]
VARS = ['x', 'y', 'g', 'n']
ROUTES = [('command', 'arguments'), ('command', 'executable'), ('resourceRequest', 'numberProcesses'),
          ('workflowAttributes', 'maxRestarts'), ('variables', 'x'), ('variables', 'y'),
          ('override', '@P1', 'command', 'arguments'), ('override', '@P1', 'variables', 'x'),
          ('command', 'nope', 'deep'), ('resourceManager', 'lsf', 'queue'),
          # whole sections: the value is a dictionary (an object the caller can still change after the call)
          ('command',), ('variables',), ('resourceManager', 'lsf'),
          # (round 7) options whose value is a LIST, and more sections; the value is, in a good share of the calls, an
          # EMPTY list / dictionary - the boundary where "nothing to copy" shortcuts keep the caller's own object
          ('references',), ('executors', 'pre'), ('executors', 'post'), ('executors',),
          ('workflowAttributes', 'shutdownOn'), ('workflowAttributes', 'restartHookOn'), ('workflowAttributes',),
          ('override',), ('override', '@P1', 'variables'), ('resourceRequest',)]
LIST_LEAVES = ('references', 'pre', 'post', 'shutdownOn', 'restartHookOn')


def fix_stage_keys(o):
    """JSON turned the integer stage keys into strings: undo (for replay / corpus files)"""
    if isinstance(o, dict):
        out = {}
        for k, v in o.items():
            v = fix_stage_keys(v)
            if k == 'stages' and isinstance(v, dict):
                v = {int(a): b for a, b in v.items()}
            out[k] = v
        return out
    if isinstance(o, list):
        return [fix_stage_keys(x) for x in o]
    return o


def canon(o):
    return json.dumps(o, sort_keys=True, default=str)


# ------------------------------------------------------------------ generators
def gen_str_value(rng, var, tag):
    """value of variable `var`; references go strictly down x > y > g > n so that there is never a cycle"""
    lower = VARS[VARS.index(var) + 1:] if var in VARS else ['g']
    if var == 'n':
        return rng.choice([rng.randrange(1, 9), str(rng.randrange(1, 9)), 4])
    r = rng.random()
    s = '%s.%s' % (tag, var)
    if lower and r < 0.45:
        s += '<%%(%s)s>' % rng.choice(lower)
    elif r < 0.52:
        return rng.choice([rng.randrange(0, 30), True])
    return s


def is_empty_container(v):
    return isinstance(v, (list, dict)) and len(v) == 0


def holds_empty_container(v):
    if isinstance(v, dict):
        return len(v) == 0 or any(holds_empty_container(x) for x in v.values())
    if isinstance(v, list):
        return len(v) == 0 or any(holds_empty_container(x) for x in v)
    return False


def gen_list_value(rng, leaf, tag):
    """value of a list-valued option; half of them EMPTY (the caller typically fills its list afterwards)"""
    if rng.random() < 0.5:
        return []
    if leaf == 'references':
        return rng.choice([['stage0.foo:ref'], ['stage0.foo:ref', 'stage1.bar:copy'], ['data/%s.txt:copy' % tag]])
    if leaf in ('pre', 'post'):
        return rng.choice([[{'name': 'lsf-dm-in', 'payload': '%s-%%(g)s' % tag}], [{'name': 'lsf-dm-out', 'payload': tag}]])
    return rng.choice([['KnownIssue'], ['SystemIssue', 'KnownIssue'], ['%s-Issue' % tag]])


def gen_route_value(rng, route, tag):
    leaf = route[-1]
    if leaf in LIST_LEAVES:
        return gen_list_value(rng, leaf, tag)
    if leaf in ('command', 'variables', 'lsf', 'executors', 'workflowAttributes', 'override', 'resourceRequest') \
            and rng.random() < 0.25:
        return {}               # an EMPTY section (legal: '#variables' {} drops the variables of the component)
    if leaf == 'executors':
        return {'pre': gen_list_value(rng, 'pre', tag), 'post': gen_list_value(rng, 'post', tag)}
    if leaf == 'workflowAttributes':
        return {'shutdownOn': gen_list_value(rng, 'shutdownOn', tag), 'maxRestarts': rng.randrange(0, 4)}
    if leaf == 'override':
        return {'p': {'variables': {}}} if rng.random() < 0.5 else {'p': {'command': {'arguments': 'ov-%s' % tag}}}
    if leaf == 'resourceRequest':
        return {'numberProcesses': rng.choice([2, '%(n)s'])}
    if leaf == 'command':
        return {'executable': 'exe-%s' % tag, 'arguments': rng.choice(['%(x)s %(g)s', 'sec-%s' % tag, '%(y)s'])}
    if leaf == 'variables':
        return {'x': gen_str_value(rng, 'x', tag)}
    if leaf == 'lsf':
        return {'queue': 'q-%s' % tag}
    if leaf == 'numberProcesses':
        return rng.choice([rng.randrange(1, 9), '%(n)s', str(rng.randrange(1, 9))])
    if leaf == 'maxRestarts':
        return rng.choice([rng.randrange(0, 5), '%(n)s', None])
    if leaf in ('x', 'y'):
        return gen_str_value(rng, leaf, tag)
    return rng.choice(['%s-%s' % (tag, leaf), '%s %%(x)s' % tag, '%%(y)s/%s' % tag, '%(g)s', '-n %(n)s %(x)s'])


def gen_component(rng, s, n, plats, tag, sparse=False):
    c = {'name': n, 'stage': s, 'command': {'executable': 'exe-%s' % tag,
                                            'arguments': rng.choice(['%(x)s %(g)s', '%(x)s', '%(y)s-%(x)s', 'lit',
                                                                     '%(g)s -n %(n)s'])}}
    if rng.random() < 0.9:
        c['variables'] = {}
        if rng.random() < 0.85:
            c['variables']['x'] = gen_str_value(rng, 'x', tag)
        if rng.random() < 0.3:
            c['variables']['y'] = gen_str_value(rng, 'y', tag)
    if not sparse:
        if rng.random() < 0.4:
            c['resourceRequest'] = {'numberProcesses': rng.choice([2, '%(n)s'])}
        if rng.random() < 0.3:
            c['workflowAttributes'] = {'maxRestarts': rng.randrange(0, 4)}
        if rng.random() < 0.35:
            P = plats[1]
            c['override'] = {P: {'command': {'arguments': 'ov-%s %%(x)s' % tag}}}
            if rng.random() < 0.5:
                c['override'][P]['variables'] = {'x': 'ovx-%s' % tag}
        # (round 7) list-valued fields and empty sections, so that the routes '#executors.pre', '#references' ... exist
        # and the definitions handed to update_component / add_component hold EMPTY containers at depth
        if rng.random() < 0.3:
            c['references'] = gen_list_value(rng, 'references', tag)
        if rng.random() < 0.3:
            c['executors'] = {'pre': gen_list_value(rng, 'pre', tag)}
            if rng.random() < 0.5:
                c['executors']['post'] = []
        if rng.random() < 0.2:
            c.setdefault('workflowAttributes', {})['shutdownOn'] = gen_list_value(rng, 'shutdownOn', tag)
        if rng.random() < 0.08:
            c[rng.choice(['resourceManager', 'resourceRequest', 'override'])] = {}
    return c


PLAT_POOLS = {
    'prefix': [('p', 'q'), ('plat', 'plat1'), ('p', 'p1'), ('q1', 'q10')],
    'meta': [('p', 'q'), ('p.q', 'p+'), ('p q', 'p\nq'), ('a*', 'a'), ('p', '(p')],
    'colon': [('p', 'p:stage0:x'), ('p:q', 'p'), ('p', 'p:stage1:foo')],
}


def gen_stage_blueprint(rng, tag):
    """a stage-level blueprint: 1-3 sections whose leaves reference variables (so that resolving them in place, or
    merging another layer into them, is visible in later answers)"""
    pool = [
        ('command', lambda: {'environment': rng.choice(['none', 'environment'])}),
        ('command', lambda: {'arguments': rng.choice(['%s-args %%(g)s' % tag, '%s-args' % tag, '%(y)s'])}),
        ('resourceManager', lambda: {'lsf': {'queue': rng.choice(['%s-q-%%(g)s' % tag, '%s-q' % tag])}}),
        ('resourceManager', lambda: {'config': {'backend': rng.choice(['local', 'lsf'])},
                                     'lsf': {'queue': '%s-Q<%%(y)s>' % tag}}),
        ('resourceRequest', lambda: {'numberProcesses': rng.choice(['%(n)s', 3, '2'])}),
        ('workflowAttributes', lambda: {'maxRestarts': rng.choice([1, 2, '%(n)s'])}),
        ('workflowAttributes', lambda: {'restartHookOn': ['%s-KnownIssue' % tag], 'maxRestarts': 5}),
    ]
    out = {}
    for _k in range(rng.choice([1, 1, 2, 3])):
        k, f = rng.choice(pool)
        out.setdefault(k, {}).update(f())
    return out


def gen_doc(rng, stream):
    P1, P2 = rng.choice(PLAT_POOLS[stream])
    plats = ['default', P1, P2]
    names = PREFIX_NAMES if stream != 'meta' else META_NAMES
    ids = []
    want = rng.randrange(2, 5)
    if stream == 'colon':
        # identities whose labels can collide with those of another (platform, component) pair
        ids = [(0, 'x:stage1:y'), (1, 'y')] if P2 == 'p:stage0:x' or P1 == 'p:stage0:x' else [(1, 'foo'), (0, 'q:stage1:foo')]
    while len(ids) < want:
        cid = (rng.choice(STAGES if rng.random() < 0.7 else [0]), rng.choice(names))
        if cid not in ids:
            ids.append(cid)
    doc = {'platforms': plats, 'components': [], 'variables': {}}
    for k, (s, n) in enumerate(ids):
        doc['components'].append(gen_component(rng, s, n, plats, 'c%d' % k))
    V = doc['variables']
    V['default'] = {'global': {'g': 'G0', 'n': 2, 'y': 'Y0'}}
    if rng.random() < 0.8:
        V['default']['global']['x'] = 'X0<%(y)s>'
    if rng.random() < 0.7:
        V['default']['stages'] = {}
        for s in sorted(set(s for s, _ in ids)):
            if rng.random() < 0.7:
                V['default']['stages'][s] = {'y': 'Ys%d' % s} if rng.random() < 0.6 else {}
    for P in (P1, P2):
        if rng.random() < 0.6:
            V[P] = {'global': {'g': 'G-%s' % P[:1]}}
            if rng.random() < 0.4:
                V[P]['stages'] = {ids[0][0]: {'y': 'Yp<%(g)s>'}}
    if rng.random() < 0.4:
        doc['blueprint'] = {rng.choice(plats): {'global': {'resourceManager': {'lsf': {'queue': 'bq-%(g)s'}}}}}
        if rng.random() < 0.5:
            doc['blueprint'].setdefault(P1, {})['stages'] = {ids[0][0]: {'command': {'environment': 'none'}}}
    if rng.random() < 0.5:
        # STAGE-level blueprints, on the default platform and on the others, for the stages that hold components
        bp = doc.setdefault('blueprint', {})
        for P in plats:
            if rng.random() < (0.85 if P == 'default' else 0.5):
                for s in sorted(set(s for s, _ in ids)):
                    if rng.random() < 0.75:
                        bp.setdefault(P, {}).setdefault('stages', {})[s] = gen_stage_blueprint(rng, 'sb%s%d' % (P[:1], s))
        # components that leave fields to the blueprints
        for c in doc['components']:
            if rng.random() < 0.35:
                c['command'].pop('arguments', None)
    return doc, plats, ids


SECTIONS = ['command', 'variables', 'override', 'resourceManager', 'resourceRequest', 'workflowAttributes']


def gen_share_parts(rng, alive, own):
    """entries of a new dictionary that ARE live sections of a component of the description (mostly the component the
    dictionary is about to replace, sometimes another one)"""
    src = own if (own is not None and rng.random() < 0.6) or not alive else rng.choice(alive)
    keys = rng.sample(SECTIONS, rng.choice([1, 2, 2, 3]))
    return [[k, [src[0], src[1], [k]]] for k in keys]


RO_KINDS = ['conf', 'conf_node', 'var_refs', 'instance', 'replicate', 'validate', 'copy', 'blueprints',
            'environments', 'misc']
RO_WEIGHTED = ['conf'] * 4 + ['conf_node'] * 2 + ['instance'] * 4 + ['replicate'] * 2 + RO_KINDS


def gen_ops(rng, plats, ids, nops, stream, live=False):
    """random history; queries everywhere; most operations target live components, some absent ones.
    live: also writes through live references OUTSIDE the discipline (bare LiveWrite, LiveVarWrite)"""
    alive = list(ids)
    pool_names = PREFIX_NAMES if stream != 'meta' else META_NAMES
    P1 = plats[1]
    ops = []
    k = 0

    def some_id(absent_ok=True):
        if alive and (not absent_ok or rng.random() < 0.9):
            return rng.choice(alive)
        return (rng.choice(STAGES), rng.choice(pool_names))

    def some_plat(may_omit=True):
        r = rng.random()
        if r < 0.08:
            return 'zz-new'
        return implicit_or(rng.choice(plats), 0.25) if may_omit else rng.choice(plats)

    def implicit_or(p, share):
        """the platform argument of a call: written out, or (share of the calls) left to the object - None or ''"""
        if rng.random() < share:
            return None if rng.random() < 0.8 else ''
        return p

    def reuse_own_object(value, s, n):
        """(round 7) the caller handed a mutator an object that is / holds an EMPTY container: in half of the cases it
        goes on to fill ITS OWN object right after a query has stored the resolved configuration (query, MutateArg of
        everything it handed in so far, query) - the sequence in which a mutator that kept the caller's object shows"""
        if not is_spec(value) and holds_empty_container(value) and rng.random() < 0.5:
            p = rng.choice(plats)
            if rng.random() < 0.7:
                ops.append(['Query', implicit_or(p, 0.3), s, n])
            ops.append(['MutateArg', rng.randrange(0, 50), 1])
            if rng.random() < 0.7:
                ops.append(['Query', implicit_or(p, 0.3), s, n])

    def maybe_container(value):
        """(round 7) a variable whose value is an (empty) container - not a text, but the setters take it"""
        if rng.random() < 0.04:
            return rng.choice([[], {}, [], {}, ['a'], {'k': 'v'}])
        return value

    while len(ops) < nops:
        k += 1
        tag = 'u%d' % k
        if rng.random() < 0.045:
            # configure_platform: the active platform of THIS object changes between the calls
            rp = rng.random()
            ops.append(['ConfigurePlatform', rng.choice(plats) if rp < 0.8 else None if rp < 0.9 else
                        '' if rp < 0.95 else 'nowhere'])
            continue
        r0 = rng.random()
        if r0 >= 0.93:
            # another read-only call of the interface (kind, platform, component, flags)
            s, n = some_id()
            kind = rng.choice(RO_WEIGHTED)
            flags = rng.randrange(32)
            if kind in ('conf', 'conf_node') and rng.random() < 0.5:
                flags &= ~8                    # inject_missing_fields=False
            ops.append(['ReadOnly', kind, implicit_or(rng.choice(plats), 0.3) if rng.random() < 0.95 else 'nowhere', s, n, flags])
            continue
        if r0 < 0.05:
            # the caller changes one (or all) of the objects it handed to the mutators so far
            ops.append(['MutateArg', rng.randrange(0, 50), 1 if rng.random() < 0.4 else 0])
            continue
        if r0 < 0.085:
            s, n = some_id()
            route = '.'.join(P1 if e == '@P1' else e for e in rng.choice(ROUTES)).split('.')
            ops.append(['LiveWrite', s, n, route, gen_route_value(rng, route, tag)])
            if not live or rng.random() < 0.5:
                # the discipline: write, then at once invalidate - or commit with a mutator of that component
                rc = rng.random()
                if rc < 0.6:
                    ops.append(['Invalidate', s, n])
                elif rc < 0.75:
                    # hand the edited live definition back to update_component
                    ops.append(['ReplaceComp', s, n, {'@live': [s, n, []], 'via': rng.choice([0, 1]),
                                                      'else': gen_component(rng, s, n, plats, tag)}])
                elif rc < 0.85:
                    v = rng.choice(VARS[:3])
                    ops.append(['SetCompVar', s, n, v, gen_str_value(rng, v, tag), rng.randrange(4)])
                elif rc < 0.92:
                    route = '.'.join(P1 if e == '@P1' else e for e in rng.choice(ROUTES)).split('.')
                    ops.append(['SetOption', s, n, route, gen_route_value(rng, route, tag), rng.randrange(3)])
                elif rc < 0.97:
                    ops.append(['DelCompVar', s, n, rng.choice(['x', 'y', 'g']), rng.randrange(4)])
                elif rc < 0.99:
                    ops.append(['ReplaceComp', s, n, gen_component(rng, s, n, plats, tag)])
                else:
                    ops.append(['DelComp', s, n])
                    if (s, n) in alive:
                        alive.remove((s, n))
            continue
        if r0 < 0.095:
            s, n = some_id()
            ops.append(['Invalidate', s, n])
            continue
        if live and r0 < 0.14:
            v = rng.choice(['g', 'y', 'x'])
            ops.append(['LiveVarWrite', some_plat(False), v, gen_str_value(rng, v, tag)])
            continue
        r = rng.random()
        if r < 0.40:
            s, n = some_id()
            ops.append(['Query', implicit_or(rng.choice(plats), 0.4) if rng.random() < 0.95 else 'nowhere', s, n])
        elif r < 0.44:
            if rng.random() < 0.5:
                ops.append(['MutateResult'])
            else:
                s, n = some_id()
                ops.append(['MutateResult', 1 + rng.randrange(0, 14), implicit_or(rng.choice(plats), 0.3), s, n])
        elif r < 0.54:
            s, n = some_id()
            v = rng.choice(VARS[:3] if rng.random() < 0.9 else ['n'])
            ops.append(['SetCompVar', s, n, v, maybe_container(gen_str_value(rng, v, tag)), rng.randrange(4)])
            reuse_own_object(ops[-1][4], s, n)
        elif r < 0.59:
            s, n = some_id()
            ops.append(['DelCompVar', s, n, rng.choice(['x', 'x', 'y', 'g']), rng.randrange(4)])
        elif r < 0.68:
            s, n = some_id()
            # (the interface takes the route as one dotted string: a platform name with a dot splits)
            route = '.'.join(P1 if e == '@P1' else e for e in rng.choice(ROUTES)).split('.')
            value = gen_route_value(rng, route, tag)
            if isinstance(value, dict) and rng.random() < 0.4:
                # ARGUMENT IDENTITY: the section handed in IS a live section of the description - the very section
                # that is being replaced, the same section of another component, or (for `variables`) the live
                # dictionary of the global variables of a platform
                if route[-1] == 'variables' and rng.random() < 0.2:
                    value = {'@live': ['@globals', rng.choice(plats)], 'else': value}
                elif rng.random() < 0.5 or not alive:
                    value = {'@live': [s, n, route], 'via': rng.choice([0, 1]), 'else': value}
                else:
                    s2, n2 = rng.choice(alive)
                    value = {'@live': [s2, n2, route], 'via': 0, 'else': value}
            ops.append(['SetOption', s, n, route, value, rng.randrange(3)])
            reuse_own_object(value, s, n)
        elif r < 0.72:
            s, n = some_id()
            # (the interface takes the route as one dotted string: a platform name with a dot splits)
            route = '.'.join(P1 if e == '@P1' else e for e in rng.choice(ROUTES)).split('.')
            ops.append(['DelOption', s, n, route, rng.randrange(3)])
        elif r < 0.75:
            v = rng.choice(['g', 'y', 'n', 'x'])
            ops.append(['SetGlobal', v, maybe_container(gen_str_value(rng, v, tag))])
        elif r < 0.78:
            v = rng.choice(['y', 'g', 'x'])
            ops.append(['SetStage', rng.choice(STAGES), v, maybe_container(gen_str_value(rng, v, tag))])
        elif r < 0.81:
            v = rng.choice(['g', 'y', 'x'])
            ops.append(['SetPlatGlobal', some_plat(), v, maybe_container(gen_str_value(rng, v, tag))])
        elif r < 0.84:
            v = rng.choice(['y', 'g', 'x'])
            ops.append(['SetPlatStage', some_plat(), rng.choice(STAGES), v, maybe_container(gen_str_value(rng, v, tag))])
        elif r < 0.86:
            v = rng.choice(['g', 'y'])
            ops.append(['RefPlatGlobal', some_plat(), v, maybe_container(gen_str_value(rng, v, tag))])
        elif r < 0.88:
            v = rng.choice(['y', 'g'])
            ops.append(['RefPlatStage', some_plat(), rng.choice(STAGES), v, maybe_container(gen_str_value(rng, v, tag))])
        elif r < 0.92:
            s, n = some_id(absent_ok=True) if rng.random() < 0.3 else (rng.choice(STAGES), rng.choice(pool_names))
            c = gen_component(rng, s, n, plats, tag)
            if s == 0 and rng.random() < 0.3:
                del c['stage']
            r2 = rng.random()
            if r2 < 0.25 and alive:
                # a new dictionary that shares sections with a live component
                c = {'@share': c, 'parts': gen_share_parts(rng, alive, None)}
            elif r2 < 0.29 and alive:
                # the live definition of a component that exists (refused: nothing may change)
                s2, n2 = rng.choice(alive)
                c = {'@live': [s2, n2, []], 'via': 0, 'else': c}
            ops.append(['AddComp', c])
            if (s, n) not in alive:
                alive.append((s, n))
            reuse_own_object(c, s, n)
        elif r < 0.96:
            s, n = some_id()
            c = gen_component(rng, s, n, plats, tag, sparse=rng.random() < 0.3)
            r2 = rng.random()
            if r2 < 0.22:
                # ARGUMENT IDENTITY: the caller hands back the live definition it holds (get_component(comp_id,
                # return_copy=False) or an entry of get_components(return_copy=False)), in half of the cases after it
                # edited the definition in place (write, invalidate, then "commit" with update_component)
                if rng.random() < 0.5 and len(ops) + 3 <= nops:
                    route = '.'.join(P1 if e == '@P1' else e for e in rng.choice(ROUTES)).split('.')
                    ops.append(['LiveWrite', s, n, route, gen_route_value(rng, route, tag)])
                    if rng.random() < 0.5:
                        ops.append(['Invalidate', s, n])    # (not needed: update_component commits the write)
                c = {'@live': [s, n, []], 'via': rng.choice([0, 1]), 'else': c}
            elif r2 < 0.38:
                # a new dictionary (own identity and command) whose other sections ARE live sections
                c = {'@share': {'name': n, 'stage': s, 'command': c['command']},
                     'parts': [kp for kp in gen_share_parts(rng, alive, (s, n)) if kp[0] != 'command' or rng.random() < 0.5]}
            ops.append(['ReplaceComp', s, n, c])
            reuse_own_object(c, s, n)
        else:
            s, n = some_id()
            ops.append(['DelComp', s, n])
            if (s, n) in alive and rng.random() < 0.9:
                alive.remove((s, n))
    return ops


# ------------------------------------------------------------------ implementation driver
class Driver(object):
    def __init__(self):
        import experiment.model.frontends.flowir as F
        import experiment.model.conf as C
        import experiment.model.graph as G
        self.F, self.C, self.G = F, C, G

        class ConfShim(object):
            """the two real methods of FlowIRExperimentConfiguration over a bare object holding the concrete"""
            def __init__(s, conc):
                s._concrete = conc
                s.is_raw = False
                s._is_primitive = False
            setOptionForNode = C.FlowIRExperimentConfiguration.setOptionForNode
            removeOptionForNode = C.FlowIRExperimentConfiguration.removeOptionForNode
            configurationForNode = C.FlowIRExperimentConfiguration.configurationForNode
            getOptionForNode = C.FlowIRExperimentConfiguration.getOptionForNode
        self.ConfShim = ConfShim
        self.ro_stats = {}
        sys.setrecursionlimit(max(sys.getrecursionlimit(), 1000))

    def dflt(self):
        return self.F.FlowIR.default_component_structure()

    def new(self, doc, active):
        return self.F.FlowIRConcrete(copy.deepcopy(doc), active, {})

    def node_name(self, s, n):
        """'stage<s>.<n>' when the real reference parser gives the identity back"""
        if not re.fullmatch(r'[A-Za-z0-9_-]+', n) or s < 0:
            return None
        ref = 'stage%d.%s' % (s, n)
        try:
            si, name, _ = self.C.ParseProducerReference(ref)
            if (si, name) == (s, n):
                return ref
        except Exception:
            pass
        return None

    def set_option(self, conc, cid, key, val, how):
        node = self.node_name(*cid)
        if how == 1 and node:
            self.ConfShim(conc).setOptionForNode(node, key, val)
        elif how == 2 and node:
            self.G.WorkflowGraph.setOptionForNode(types.SimpleNamespace(configuration=self.ConfShim(conc)), node, key, val)
        else:
            conc.set_component_option(cid, key, val)

    def remove_option(self, conc, cid, key, how):
        node = self.node_name(*cid)
        if how == 1 and node:
            self.ConfShim(conc).removeOptionForNode(node, key)
        elif how == 2 and node:
            self.G.WorkflowGraph.removeOptionForNode(types.SimpleNamespace(configuration=self.ConfShim(conc)), node, key)
        else:
            conc.remove_component_option(cid, key)

    @staticmethod
    def exc(e):
        if isinstance(e, RecursionError):
            return ['exc', 'RecursionError', '']
        name = type(e).__name__
        if name == 'FLowIRSymbolTableNotImplemented':
            name = 'NotImplementedError'
        detail = ''
        if name in ('FlowIRVariableUnknown', 'FlowIRVariableInvalid'):
            detail = str(getattr(e, 'variable_route', ''))
        return ['exc', name, detail]

    def query(self, conc, p, s, n):
        """returns (observation, live result object or None)"""
        try:
            if p is None:
                # the platform argument is omitted altogether (what conf.py, graph.py and the scripts do)
                r = conc.get_component_configuration((s, n), include_default=True)
            else:
                r = conc.get_component_configuration((s, n), include_default=True, platform=p)
        except Exception as e:
            return self.exc(e), None
        return ['val', copy.deepcopy(r)], r

    ACCESSORS = 14

    def read_accessor(self, conc, k, p, s, n):
        """every public accessor of FlowIRConcrete that hands out (a copy of) state the resolution reads"""
        cid = (s, n)
        k = k % self.ACCESSORS
        if k == 0:
            return conc.get_component(cid)
        if k == 1:
            return conc.get_components()
        if k == 2:
            return conc.get_platform_global_variables(p)
        if k == 3:
            return conc.get_platform_stage_variables(s, p)
        if k == 4:
            return conc.get_component_variables(cid, platform=p)
        if k == 5:
            return conc.raw()
        if k == 6:
            return [conc.get_platform_blueprint(p), conc.get_platform_stage_blueprint(s, p),
                    conc.get_default_global_blueprint(), conc.get_default_stage_blueprint(s)]
        if k == 7:
            return conc.get_component_configuration(cid, raw=True, include_default=True, platform=p)
        if k == 8:
            return conc.get_component_configuration(cid, include_default=False, platform=p)
        if k == 9:
            return [conc.get_default_global_variables(), conc.get_default_stage_variables(s)]
        if k == 10:
            return [conc.get_global_variables(), conc.get_stage_variables(s)]
        if k == 11:
            return conc.get_platform_variables(p)
        if k == 12:
            return conc.get_component_configuration(cid, include_default=True, platform=p, is_primitive=True)
        return conc.get_workflow_variables()

    def read_only(self, conc, kind, p, s, n, flags):
        """the read-only calls of the configuration interface other than the plain query and the accessors swept by
        read_accessor.  Returns what the call handed out (a private copy: the caller scrambles it)."""
        cid = (s, n)
        raw, incl, prim, inject, ice = bool(flags & 1), bool(flags & 2), bool(flags & 4), bool(flags & 8), bool(flags & 16)
        if kind in ('conf', 'conf_node') and (not raw and incl and not prim and inject):
            inject = False          # (the fully resolved mode IS the operation Query)
        if kind == 'conf':
            return conc.get_component_configuration(cid, raw=raw, include_default=incl, platform=p, is_primitive=prim,
                                                    inject_missing_fields=inject, ignore_convert_errors=ice)
        if kind == 'conf_node':
            # configurationForNode / getOptionForNode of conf.py and graph.py (they query the active platform)
            node = self.node_name(s, n)
            shim = self.ConfShim(conc)
            if node is None:
                return conc.get_component_configuration(cid, raw, include_default=incl, is_primitive=prim,
                                                        inject_missing_fields=inject)
            if ice and raw:
                return [shim.getOptionForNode(node, '#command.arguments', raw=prim, include_default=incl),
                        shim.getOptionForNode(node, '#resourceManager', raw=True, include_default=incl)]
            if ice:
                return self.G.WorkflowGraph.configurationForNode(
                    types.SimpleNamespace(configuration=shim, isPrimitive=prim), node, raw=raw, omitDefault=not incl,
                    inject_missing_fields=inject)
            return shim.configurationForNode(node, raw=raw, omitDefault=not incl, is_primitive=prim,
                                             inject_missing_fields=inject)
        if kind == 'var_refs':
            return conc.get_component_variable_references(cid, include_default=incl)
        if kind == 'instance':
            return conc.instance(platform=p, ignore_errors=not ice, fill_in_all=raw, is_primitive=prim,
                                 inject_missing_fields=inject)
        if kind == 'replicate':
            return conc.replicate(platform=p, ignore_errors=not ice)
        if kind == 'validate':
            conc.validate()
            return None
        if kind == 'copy':
            other = conc.copy()
            r = other.get_component_configuration(cid, include_default=True, platform=p)
            other.set_global_variable('g', 'G-of-the-copy')
            return r
        if kind == 'blueprints':
            return [conc.get_platform_stage_blueprint(s, p), conc.get_default_stage_blueprint(s),
                    conc.get_platform_blueprint(p), conc.get_default_global_blueprint()]
        if kind == 'environments':
            out = [conc.get_environments(p), conc.environments(p)]
            for name in ('environment', 'none', ''):
                try:
                    out.append(conc.get_environment(name, p))
                except Exception:
                    pass
            return out
        out = [conc.get_stage_description(s), list(conc.get_component_identifiers(raw)),
               list(conc.get_placeholder_identifiers()), conc.get_virtual_environments(p), conc.get_output(),
               conc.get_status(), conc.get_interface(), conc.numberStageConfigurations, list(conc.platforms),
               conc.active_platform]
        try:
            out.append(conc.get_component_variable(cid, 'x'))
        except Exception:
            pass
        return out

    def live_object(self, conc, state, src, via=0):
        """THE object the description stores (no copy) - what a caller holds after get_components(return_copy=False)
        [via=0: handing out is not an event], get_component(comp_id, return_copy=False) [via=1: the accessor
        invalidates the labels of the component when it hands out] or get_platform_global_variables(p,
        return_copy=False) [src = ['@globals', p]: a reference the caller kept from the time the cache was empty].
        src = [stage, name, route]: the sub-object at `route` of the component ([] = the component itself).
        None when there is no such object (no such component / platform / route)."""
        if src and src[0] == '@globals':
            return state.get('grefs', {}).get(src[1])
        s, n, route = src
        if via == 1:
            comp = conc.get_component((s, n), return_copy=False)   # (FlowIRComponentUnknown: the caller's call raises)
        else:
            comp = None
            try:
                for c in conc.get_components(return_copy=False):
                    if isinstance(c, dict) and c.get('stage') == s and c.get('name') == n:
                        comp = c
                        break
            except Exception:
                return None
        obj = comp
        for point in route:
            if not isinstance(obj, dict) or point not in obj:
                return None
            obj = obj[point]
        return obj

    def resolve_arg(self, conc, state, x):
        """the object a mutator is handed, for an argument written as a recipe over live state:
          {'@live': src, 'via': v, 'else': literal}     the live object itself (ARGUMENT IDENTITY: the argument IS
                                                        state the mutator is about to replace / read)
          {'@share': base, 'parts': [[key, src], ...]}  a new dictionary whose entries `key` are live sub-objects
        Returns (object, its value at the time of the call as an independent copy, is it / does it share live state)"""
        if '@live' in x:
            obj = self.live_object(conc, state, x['@live'], x.get('via', 0))
            if obj is None or not isinstance(obj, (dict, list)):
                o = copy.deepcopy(x.get('else'))
                return o, copy.deepcopy(o), False
            return obj, copy.deepcopy(obj), True
        o = copy.deepcopy(x['@share'])
        shared = False
        for key, src in x.get('parts', []):
            obj = self.live_object(conc, state, src, 0)
            if obj is not None:
                o[key] = obj
                shared = shared or isinstance(obj, (dict, list))
        return o, copy.deepcopy(o), shared

    def apply(self, conc, op, state):
        """apply one operation to the live object; state['last'] = the configuration handed out last;
        state['rop'] = the operation with its argument written as the VALUE it had at the time of the call (what the
        model is told), state['identity'] = the argument was / shared live state of the object"""
        k = op[0]
        state['rop'] = op
        state['identity'] = False

        def val(x, at=None):
            # the object handed to the mutator; the caller (this harness) keeps it and may change it later (MutateArg)
            if is_spec(x):
                try:
                    o, value, shared = self.resolve_arg(conc, state, x)
                except Exception:
                    # the caller's own get_component(comp_id, return_copy=False) raised: the mutator is never called
                    value = copy.deepcopy(x.get('else'))
                    state['rop'] = op[:at] + [value] + op[at + 1:]
                    state.setdefault('args', []).append(copy.deepcopy(value))
                    raise
                state['rop'] = op[:at] + [value] + op[at + 1:]
                state['identity'] = shared
                # (what the caller may scramble later is its own object: never the live state itself)
                state.setdefault('args', []).append(copy.deepcopy(value))
                return o
            o = copy.deepcopy(x)
            state.setdefault('args', []).append(o)
            return o
        def own(o):
            # a write through a live reference is the CALLER's statement: were it to store the very object it goes on
            # using, a later change of that object would be one more live write (outside the interface), not a
            # MutateArg - the caller stores a value of its own
            return copy.deepcopy(o)
        try:
            if k == 'Query':
                o, live = self.query(conc, op[1], op[2], op[3])
                state['last'] = live
                return o
            if k == 'MutateResult':
                if len(op) > 1 and op[1]:
                    # the value handed out by another copy-returning accessor (errors of the accessor are not events)
                    try:
                        scramble_any(self.read_accessor(conc, op[1], op[2], op[3], op[4]))
                    except Exception:
                        pass
                else:
                    scramble(state.get('last'))
                return ['done']
            if k == 'ReadOnly':
                # (errors of the call are not events: whether it returns or raises, nothing may have changed)
                try:
                    scramble_any(self.read_only(conc, op[1], op[2], op[3], op[4], op[5]))
                    self.ro_stats[(op[1], 'ok')] = self.ro_stats.get((op[1], 'ok'), 0) + 1
                except Exception as e:
                    key = (op[1], type(e).__name__)
                    self.ro_stats[key] = self.ro_stats.get(key, 0) + 1
                return ['done']
            if k == 'MutateArg':
                args = state.get('args') or []
                if args:
                    scramble_arg(args[op[1] % len(args)])
                    if len(op) > 2 and op[2]:
                        for a in args:
                            scramble_arg(a)
                return ['done']
            if k == 'LiveWrite':
                cid = (op[1], op[2])
                conc.get_component(cid)             # (a copy: raises FlowIRComponentUnknown, touches nothing)
                comp = [c for c in conc.get_components(return_copy=False)
                        if c.get('stage') == cid[0] and c.get('name') == cid[1]][0]
                route = list(op[3]) or ['']
                context = comp
                for point in route[:-1]:
                    context = context[point]
                context[route[-1]] = copy.deepcopy(op[4])
                return ['done']
            if k == 'LiveVarWrite':
                ref = state.get('grefs', {}).get(op[1])
                if ref is None:
                    raise self.F.experiment.model.errors.FlowIRPlatformUnknown(op[1], {})
                ref[op[2]] = copy.deepcopy(op[3])
                return ['done']
            if k == 'Invalidate':
                conc.invalidate_cache_for_component((op[1], op[2]))
                return ['done']
            if k == 'ConfigurePlatform':
                conc.configure_platform(op[1])
                return ['done']
            if k == 'SetCompVar':
                cid, how = (op[1], op[2]), op[5] if len(op) > 5 else 0
                if how == 0:
                    conc.set_component_variable(cid, op[3], val(op[4]))
                else:
                    self.set_option(conc, cid, op[3], val(op[4]), how - 1)
            elif k == 'DelCompVar':
                cid, how = (op[1], op[2]), op[4] if len(op) > 4 else 0
                if how == 0:
                    conc.delete_component_variable(cid, op[3])
                else:
                    self.remove_option(conc, cid, op[3], how - 1)
            elif k == 'SetOption':
                self.set_option(conc, (op[1], op[2]), '#' + '.'.join(op[3]), val(op[4], 4), op[5] if len(op) > 5 else 0)
            elif k == 'DelOption':
                self.remove_option(conc, (op[1], op[2]), '#' + '.'.join(op[3]), op[4] if len(op) > 4 else 0)
            elif k == 'SetGlobal':
                conc.set_global_variable(op[1], val(op[2]))
            elif k == 'SetStage':
                conc.set_stage_variable(op[1], op[2], val(op[3]))
            elif k == 'SetPlatGlobal':
                if op[1] is None:
                    conc.set_platform_global_variable(op[2], val(op[3]))
                else:
                    conc.set_platform_global_variable(op[2], val(op[3]), op[1])
            elif k == 'SetPlatStage':
                if op[1] is None:
                    conc.set_platform_stage_variable(op[2], op[3], val(op[4]))
                else:
                    conc.set_platform_stage_variable(op[2], op[3], val(op[4]), op[1])
            elif k == 'RefPlatGlobal':
                if op[1] is None:
                    conc.get_platform_global_variables(return_copy=False)[op[2]] = own(val(op[3]))
                else:
                    conc.get_platform_global_variables(op[1], return_copy=False)[op[2]] = own(val(op[3]))
            elif k == 'RefPlatStage':
                if op[1] is None:
                    conc.get_platform_stage_variables(op[2], return_copy=False)[op[3]] = own(val(op[4]))
                else:
                    conc.get_platform_stage_variables(op[2], op[1], return_copy=False)[op[3]] = own(val(op[4]))
            elif k == 'AddComp':
                conc.add_component(val(op[1], 1))
            elif k == 'ReplaceComp':
                conc.update_component((op[1], op[2]), val(op[3], 3))
            elif k == 'DelComp':
                conc.delete_component((op[1], op[2]))
            else:
                raise ValueError('unknown operation %r' % (k,))
        except Exception as e:
            if isinstance(e, ValueError) and str(e).startswith('unknown operation'):
                raise
            return self.exc(e)
        return ['done']


def is_spec(x):
    return isinstance(x, dict) and ('@live' in x or '@share' in x)


def scramble_any(o):
    if isinstance(o, dict):
        scramble(o)
        o['MUTATED'] = 'by-caller'
    elif isinstance(o, list):
        for x in o:
            scramble_any(x)
        o.append('MUTATED')


def scramble_arg(o):
    """the caller changes, in place and at every depth, an object it handed to a mutator earlier"""
    if isinstance(o, dict):
        o['MUTATED'] = 'by-caller'
        scramble(o)
    elif isinstance(o, list):
        o.append('MUTATED')


def keep_global_refs(conc, state):
    """the caller asks for (and keeps) live references to the global variables of every platform; only while the
    cache is empty, so that handing them out (which clears the cache) is not an event of the history"""
    if conc._cache.keys():
        return False
    refs = state.setdefault('grefs', {})
    asked = False
    for p in conc.platforms:
        if p not in refs:
            asked = True
            try:
                refs[p] = conc.get_platform_global_variables(p, return_copy=False)
            except Exception:
                pass
    return asked


def scramble(r):
    """change, in place and at every depth, a configuration the object handed out"""
    if not isinstance(r, dict):
        return
    for k in list(r):
        v = r[k]
        if isinstance(v, dict):
            scramble(v)
            v['MUTATED'] = 'by-caller'
        elif isinstance(v, list):
            v.append('MUTATED')
        else:
            r[k] = 'MUTATED-%s' % k
    r.pop('name', None)
    r.setdefault('variables', {})['x'] = 'MUTATED-x'


# ------------------------------------------------------------------ Coq terms
def c_op(op, loc=None):
    k = op[0]
    if k == 'Query':
        return '(Query %s %s %s)' % (cstr(op[1]), cZ(op[2]), cstr(op[3]))
    if k == 'MutateResult':
        return 'MutateResult'
    if k == 'SetCompVar':
        return '(SetCompVar %s %s %s %s)' % (cZ(op[1]), cstr(op[2]), cstr(op[3]), cjv(op[4]))
    if k == 'DelCompVar':
        return '(DelCompVar %s %s %s)' % (cZ(op[1]), cstr(op[2]), cstr(op[3]))
    if k == 'SetOption':
        return '(SetOption %s %s %s %s)' % (cZ(op[1]), cstr(op[2]), clist(op[3], cstr), cjv(op[4]))
    if k == 'DelOption':
        return '(DelOption %s %s %s)' % (cZ(op[1]), cstr(op[2]), clist(op[3], cstr))
    if k == 'SetGlobal':
        return '(SetGlobal %s %s)' % (cstr(op[1]), cjv(op[2]))
    if k == 'SetStage':
        return '(SetStage %s %s %s)' % (cZ(op[1]), cstr(op[2]), cjv(op[3]))
    if k in ('SetPlatGlobal', 'RefPlatGlobal'):
        return '(%s %s %s %s)' % (k, cstr(op[1]), cstr(op[2]), cjv(op[3]))
    if k in ('SetPlatStage', 'RefPlatStage'):
        return '(%s %s %s %s %s)' % (k, cstr(op[1]), cZ(op[2]), cstr(op[3]), cjv(op[4]))
    if k == 'AddComp':
        return '(AddComp %s)' % cjv(op[1])
    if k == 'ReplaceComp':
        return '(ReplaceComp %s %s %s)' % (cZ(op[1]), cstr(op[2]), cjv(op[3]))
    if k == 'DelComp':
        return '(DelComp %s %s)' % (cZ(op[1]), cstr(op[2]))
    if k == 'MutateArg':
        s_, n_, r_ = loc if loc else (0, '', [])
        return '(MutateArg %s %s %s (JStr "by-caller"))' % (cZ(s_), cstr(n_), clist(list(r_) + ['MUTATED'], cstr))
    if k == 'LiveWrite':
        return '(LiveWrite %s %s %s %s)' % (cZ(op[1]), cstr(op[2]), clist(op[3], cstr), cjv(op[4]))
    if k == 'LiveVarWrite':
        return '(LiveVarWrite %s %s %s)' % (cstr(op[1]), cstr(op[2]), cjv(op[3]))
    if k == 'Invalidate':
        return '(Invalidate %s %s)' % (cZ(op[1]), cstr(op[2]))
    if k == 'ReadOnly':
        return '(ReadOnly %s)' % cstr(str(op[1]))
    raise ValueError(k)


PLATFORM_SLOT = ('Query', 'SetPlatGlobal', 'SetPlatStage', 'RefPlatGlobal', 'RefPlatStage')


def implicit(op):
    """the call takes a platform and the caller left it out (None, or the empty text: `platform or self._platform`)"""
    return op[0] in PLATFORM_SLOT and not op[1]


def c_aop(op, loc=None):
    """an operation of the larger alphabet (Cache.Model.aop): explicit call, implicit-platform call, platform switch"""
    if op[0] == 'ConfigurePlatform':
        return '(ConfigurePlatform %s)' % ('None' if op[1] is None else '(Some %s)' % cstr(op[1]))
    if implicit(op):
        return '(Im %s)' % c_op([op[0], ''] + list(op[2:]), loc)
    return '(E %s)' % c_op(op, loc)


def next_active(active, op):
    """the active platform after the call (mirror of Cache.Model.act_next: configure_platform(p) -> p or 'default')"""
    if op[0] == 'ConfigurePlatform':
        return op[1] or 'default'
    return active


def effective_platforms(case, ops=None):
    """for every operation of the history: the platform the call is made for (the one written out, else the one that
    is active at that point); None for calls without a platform"""
    active = case.get('active') or 'default'
    out = []
    for op in (case['ops'] if ops is None else ops):
        out.append((op[1] or active) if op[0] in PLATFORM_SLOT else None)
        active = next_active(active, op)
    return out


def arg_locs(ops):
    """for every MutateArg of the history: where the object it changes would sit in the description had the mutator
    that received it stored the object itself ((stage, name, route) of a component; None for variable values)"""
    args, out = [], []
    for op in ops:
        k = op[0]
        loc = None
        if k == 'SetCompVar':
            args.append((op[1], op[2], ['variables', op[3]]))
        elif k == 'SetOption':
            args.append((op[1], op[2], list(op[3])))
        elif k == 'ReplaceComp':
            args.append((op[1], op[2], []))
        elif k in ('SetGlobal', 'SetStage', 'SetPlatGlobal', 'SetPlatStage', 'RefPlatGlobal', 'RefPlatStage', 'AddComp'):
            args.append(None)
        elif k == 'MutateArg' and args:
            loc = args[op[1] % len(args)]
        out.append(loc)
    return out


def diff(base, w, pre, out):
    """patch turning base into w: (path, value) = subtree replaced, (path, None-marker) = key removed"""
    if isinstance(base, dict) and isinstance(w, dict) and (w or not base):
        for k in w:
            if k not in base:
                out.append((pre + [k], ('set', w[k])))
            elif canon(base[k]) != canon(w[k]) or type(base[k]) != type(w[k]):
                diff(base[k], w[k], pre + [k], out)
        for k in base:
            if k not in w:
                out.append((pre + [k], ('del',)))
    else:
        out.append((pre, ('set', w)))
    return out


def patched(base, patch):
    """Python mirror of Cache.Model.apply_patch (self-check of the encoding)"""
    v = copy.deepcopy(base)
    for path, what in patch:
        if not path:
            v = copy.deepcopy(what[1])
            continue
        cur = v
        for k in path[:-1]:
            if not isinstance(cur.get(k), dict):
                cur[k] = {}
            cur = cur[k]
        if what[0] == 'set':
            cur[path[-1]] = copy.deepcopy(what[1])
        else:
            cur.pop(path[-1], None)
    return v


def c_iobs(o, same, base):
    if o[0] == 'done':
        return 'IDone'
    if o[0] == 'exc':
        return '(IExc %s %s)' % (cstr(o[1]), cstr(o[2]))
    if same is not None:
        return '(ISame %s)' % cnat(same)
    v = dict(o[1])
    v.pop('override', None)
    patch = diff(base, v, [], [])
    if any(not p for p, _w in patch) or canon(patched(base, patch)) != canon(v):
        return '(IVal %s)' % cjv(v)
    return '(IPatch %s)' % clist(patch, lambda pw: '(%s, %s)' % (
        clist([str(k) for k in pw[0]], cstr), 'None' if pw[1][0] == 'del' else '(Some %s)' % cjv(pw[1][1])))


def case_term(raw0, ops, obs, keys, base, active='default'):
    vals = {}
    items = []
    for i, (o, ks) in enumerate(zip(obs, keys)):
        same = None
        if o[0] == 'val':
            v = dict(o[1])
            v.pop('override', None)
            c = canon(v)
            if c in vals:
                same = vals[c]
            else:
                vals[c] = i
        items.append('(%s, %s)' % (c_iobs(o, same, base), clist(ks, cstr)))
    return '((real_dflt, real_base, (%s, %s, %s), %s, %s, %s) : case)' % (
        cjv(raw0.get('blueprint') or {}), cjv(raw0.get('variables') or {}), clist(raw0.get('components') or [], cjv),
        cstr(active or 'default'),
        clist(list(zip(ops, arg_locs(ops))), lambda ol: c_aop(ol[0], ol[1])), clist(items))


# ------------------------------------------------------------------ one history on the real object
def classes_of(case):
    cl = []
    if any(op[0] == 'Query' and ':' in p for op, p in zip(case['ops'], effective_platforms(case))):
        cl.append('platform_name_contains_colon')
    return cl


COMMITTING = ('Invalidate', 'SetCompVar', 'DelCompVar', 'SetOption', 'DelOption', 'ReplaceComp', 'DelComp')


def commits(cid, op):
    """mirror of Cache.Model.commits: the call drops the labels of component cid whenever it exists
    (invalidate_cache_for_component, or a mutator of that component: they all go through
    get_component(cid, return_copy=False) / invalidate themselves)"""
    if op is None or op[0] not in COMMITTING or (op[1], op[2]) != cid:
        return False
    if op[0] in ('SetOption', 'DelOption') and op[3] and op[3][0] in ('name', 'stage'):
        return False
    if op[0] == 'ReplaceComp' and not is_spec(op[3]):
        return isinstance(op[3], dict) and (op[3].get('stage'), op[3].get('name')) == cid
    return True


def in_domain(ops):
    """mirror of Cache.Model.ok_hist for the live-reference operations: a write through a live reference to a
    component is followed at once by a call that commits that component (ops: the history, arguments written as
    values - play()'s rops - or as recipes)"""
    for i, op in enumerate(ops):
        if op[0] == 'LiveVarWrite':
            return False
        if op[0] == 'LiveWrite':
            nxt = ops[i + 1] if i + 1 < len(ops) else None
            if (op[3] and op[3][0] in ('name', 'stage')) or not commits((op[1], op[2]), nxt):
                return False
    return True


def play(drv, case, upto=None):
    """run the history; returns (raw document after construction, observations, cache labels after each operation,
    failures [(index, text)])"""
    conc = drv.new(case['doc'], case['active'])
    state = {}
    active = case['active'] or 'default'        # the harness follows the active platform on its own
    keep_global_refs(conc, state)
    raw0 = conc.raw()
    prev = canon_doc(raw0)
    obs, keys, fails, rops = [], [], [], []
    for i, op in enumerate(case['ops'][:upto]):
        before = conc.raw() if has_spec(op) else None
        active_before = active
        o = drv.apply(conc, op, state)
        active = next_active(active, op)
        obs.append(o)
        rops.append(state['rop'])
        keys.append(sorted(conc._cache.keys()))
        if before is not None and state.get('identity'):
            # the property predicate, part 3 (ARGUMENT IDENTITY): the update was handed an object that is, or shares
            # parts with, the state it replaces.  An update means the VALUE of its arguments at the time of the call:
            # the same call with an equal but independent copy, on an object built from the same description, must
            # leave the same description (and end the same way)
            try:
                twin = drv.new(before, active_before)
                same_start = canon_doc(twin.raw()) == canon_doc(before)
            except Exception:
                same_start = False
            if same_start:
                to = drv.apply(twin, state['rop'], {})
                want, got = canon_doc(twin.raw()), canon_doc(conc.raw())
                if want != got or canon(to) != canon(o):
                    fails.append((i, '%s handed an object that %s: the description afterwards differs from the one the '
                                  'same call with an equal, independent copy produces at %s (outcome %s, with the copy %s)'
                                  % (op[0], identity_text(op), doc_diff(json.loads(want), json.loads(got)) if want != got
                                     else 'no place', o[:2], to[:2])))
            state['identity'] = False
        # the property predicate, part 2: only the mutators change the description
        now = canon_doc(conc.raw())
        if op[0] in READ_ONLY_OPS and now != prev:
            fails.append((i, 'the read-only call %s changed the description: raw() differs at %s'
                          % (describe_op(op), doc_diff(json.loads(prev), json.loads(now)))))
        prev = now
        if keep_global_refs(conc, state):
            prev = canon_doc(conc.raw())
        if op[0] == 'Query':
            # the property predicate: the same question asked of an object built from scratch from the description
            # (an object constructed for the platform that is active NOW, asked with the same - possibly omitted -
            # platform argument)
            try:
                fresh = drv.new(conc.raw(), active)
                fo, _ = drv.query(fresh, op[1], op[2], op[3])
            except Exception as e:      # the description the object now holds does not even load
                fo = drv.exc(e)
            if canon(fo) != canon(o):
                what = ('a query %safter %s returns %s although the current description resolves to %s'
                        % ('' if op[1] else 'for the active platform (no platform argument) ',
                           last_mutator(case['ops'][:i]), brief(o, fo), brief(fo, o)))
                fails.append((i, what))
    return raw0, obs, keys, fails, rops


def has_spec(op):
    return any(is_spec(x) for x in op[1:])


def identity_text(op):
    x = [v for v in op[1:] if is_spec(v)][0]
    if '@live' in x:
        src = x['@live']
        if src[0] == '@globals':
            return 'IS the live dictionary of the global variables of platform %r (return_copy=False)' % (src[1],)
        return 'IS the live %s of component stage%s.%s (%s)' % (
            'definition' if not src[2] else 'section ' + '.'.join(src[2]), src[0], src[1],
            'get_component(return_copy=False)' if x.get('via') else 'get_components(return_copy=False)')
    return 'shares the live sections %s with the description' % ', '.join(
        '%s of stage%s.%s' % (k, src[0], src[1]) for k, src in x.get('parts', []))


ARG_SLOT = {'SetCompVar': 4, 'SetOption': 4, 'SetGlobal': 2, 'SetStage': 3, 'SetPlatGlobal': 3, 'SetPlatStage': 4,
            'RefPlatGlobal': 3, 'RefPlatStage': 4, 'AddComp': 1, 'ReplaceComp': 3}
READ_ONLY_OPS = ('Query', 'MutateResult', 'MutateArg', 'Invalidate', 'ReadOnly', 'ConfigurePlatform')


def canon_doc(raw):
    return json.dumps(raw, sort_keys=True, default=str)


def describe_op(op):
    if op[0] == 'ReadOnly':
        return 'ReadOnly:%s(platform=%s, stage%s.%s, flags=%s)' % (op[1], op[2], op[3], op[4], op[5])
    if op[0] == 'MutateResult' and len(op) > 1 and op[1]:
        return 'accessor#%s' % (op[1] % Driver.ACCESSORS)
    return op[0]


def doc_diff(a, b, pre=''):
    """first few places where two descriptions differ"""
    out = []

    def walk(x, y, path):
        if len(out) >= 3:
            return
        if isinstance(x, dict) and isinstance(y, dict):
            for k in sorted(set(x) | set(y)):
                if k not in x or k not in y:
                    out.append('%s.%s' % (path, k))
                else:
                    walk(x[k], y[k], '%s.%s' % (path, k))
        elif isinstance(x, list) and isinstance(y, list) and len(x) == len(y):
            for j, (u, v) in enumerate(zip(x, y)):
                walk(u, v, '%s[%d]' % (path, j))
        elif x != y:
            out.append(path)
    walk(a, b, pre)
    return ', '.join(out[:3]) or '?'


def last_mutator(ops):
    for op in reversed(ops):
        if op[0] not in ('Query',):
            return op[0]
    return 'construction'


def brief(o, other):
    if o[0] == 'exc':
        return 'exception %s' % o[1]
    if other[0] != 'val':
        return 'a configuration'
    d = [k for k in sorted(set(o[1]) | set(other[1])) if canon(o[1].get(k)) != canon(other[1].get(k))]
    return 'a configuration with another %s' % '/'.join(d[:3])


def shrink(drv, case, idx, what):
    """greedy: cut after the failing query, then drop operations while the same failure remains"""
    ops = case['ops'][:idx + 1]
    cur = dict(case, ops=ops)

    def still(c):
        if not in_domain(c['ops']):
            return False
        try:
            _r, _o, _k, fl, ro = play(drv, c)
        except Exception:
            return False
        return in_domain(ro) and any(w == what for _i, w in fl)
    changed = True
    budget = 200
    while changed and budget > 0:
        changed = False
        for j in range(len(cur['ops']) - 1):
            budget -= 1
            cand = dict(cur, ops=cur['ops'][:j] + cur['ops'][j + 1:])
            if still(cand):
                cur = cand
                changed = True
                break
    return cur


def explore(ctx, cases):
    drv = Driver()
    dflt = drv.dflt()
    base = drv.F.FlowIR.inject_default_values_to_component({})
    terms, kept = [], []
    for case in cases:
        raw0, obs, keys, fails, rops = play(drv, case)
        cls = classes_of(case)
        seen = set()
        if not in_domain(rops):
            # a write through a live reference that is not followed at once by the invalidation of that component
            # is not an update through the configuration interface: the property says nothing about the history.
            # The stale answers are still compared with the model (which predicts them).
            ctx.count('stale_answers_after_undisciplined_live_write', len(fails))
            fails = []
        for idx, what in fails:
            if what in seen:
                continue
            seen.add(what)
            small = shrink(drv, case, idx, what) if (not cls and len(ctx.failures) < 6) else dict(case, ops=case['ops'][:idx + 1])
            ctx.fail({'doc': small['doc'], 'active': small['active'], 'ops': small['ops'],
                      'stream': case.get('stream')}, what, cls)
        ops = case['ops']
        nq = sum(1 for op in ops if op[0] == 'Query')
        hits = 0
        stale_chance = 0
        prev = []
        eff = effective_platforms(case)
        switched = False
        for i, op in enumerate(ops):
            if op[0] == 'ConfigurePlatform':
                switched = True
            elif op[0] == 'Query' and not op[1] and switched and i > 0 and keys[i - 1]:
                ctx.count('implicit_queries_after_a_platform_switch_on_warm_cache')
            if op[0] == 'Query':
                lab = 'component:%s:stage%s:%s' % (eff[i], op[2], op[3])
                if i > 0 and lab in keys[i - 1]:
                    hits += 1
                elif i == 0:
                    pass
            elif op[0] != 'MutateResult' and i > 0 and keys[i - 1]:
                stale_chance += 1       # a mutator ran while the cache held entries
        nontrivial = stale_chance >= 1 and nq >= 2
        ctx.case([case['doc'], case['active'], ops], nontrivial)
        ctx.count('stream=' + str(case.get('stream')))
        sbp = sorted(P if P == 'default' else 'other' for P, b in (case['doc'].get('blueprint') or {}).items()
                     if isinstance(b, dict) and b.get('stages'))
        ctx.count('stage_blueprints_on=' + ('+'.join(sorted(set(sbp))) or 'none'))
        ctx.count('length=%s' % ('1-5' if len(ops) <= 5 else '6-15' if len(ops) <= 15 else '16-30' if len(ops) <= 30 else '31+'))
        ctx.count('queries', nq)
        ctx.count('cache_hits', hits)
        ctx.count('mutators_run_on_warm_cache', stale_chance)
        for op, o in zip(ops, obs):
            ctx.count('op=' + op[0])
            if op[0] in PLATFORM_SLOT:
                ctx.count('platform_argument=%s:%s' % (op[0], 'omitted' if not op[1] else 'given'))
            if has_spec(op):
                x = [v for v in op[1:] if is_spec(v)][0]
                ctx.count('argument_identity=%s:%s' % (op[0], 'shares-live-sections' if '@share' in x else
                                                       'live-global-variables' if x['@live'][0] == '@globals' else
                                                       'live-definition' if not x['@live'][2] else 'live-section'))
            if op[0] in ARG_SLOT and not is_spec(op[ARG_SLOT[op[0]]]):
                a = op[ARG_SLOT[op[0]]]
                if is_empty_container(a):
                    ctx.count('argument_value=%s:empty-%s' % (op[0], type(a).__name__))
                elif holds_empty_container(a):
                    ctx.count('argument_value=%s:holds-empty-container' % op[0])
                elif isinstance(a, list):
                    ctx.count('argument_value=%s:list' % op[0])
            if op[0] == 'Query':
                ctx.count('query_outcome=' + ('ok' if o[0] == 'val' else o[1]))
            elif o[0] == 'exc':
                ctx.count('mutator_error=%s:%s' % (op[0], o[1]))
        if len(ctx.samples) < 3 and nontrivial and 4 <= len(ops) <= 9 and case.get('stream') != 'exhaustive':
            ctx.sample({'doc': case['doc'], 'active': case['active'], 'ops': ops,
                        'labels_after_each_op': keys,
                        'observations': [o if o[0] != 'val' else ['val', o[1].get('command')] for o in obs]})
        if case.get('stream') == 'interpreter':
            continue            # predicate only (see interpreter_cases)
        terms.append(case_term(raw0, rops, obs, keys, base, case['active']))
        kept.append((case, obs, keys))
    for (kind, outcome), cnt in sorted(drv.ro_stats.items()):
        ctx.count('read_only_outcome=%s:%s' % (kind, outcome), cnt)
    header = HEADER
    bad = ctx.model_mismatches(header, terms, 'check_case', chunk=150, name='model')
    for k, i in enumerate(bad):
        case, obs, keys = kept[i]
        model = ''
        if k < 2:
            model = ctx.model_eval(header, 'first_bad %s' % terms[i])[-1500:]
        ctx.disagree({'doc': case['doc'], 'active': case['active'], 'ops': case['ops'], 'stream': case.get('stream')},
                     {'observations': [o if o[0] != 'val' else ['val', {kk: vv for kk, vv in o[1].items()
                                                                        if kk in ('command', 'variables')}] for o in obs],
                      'labels': keys}, model,
                     'C08 live FlowIRConcrete history (observations + cache labels) vs Cache.Model.trace')
    return kept


# ------------------------------------------------------------------ the label matchers against re
def matcher_check(ctx, n):
    """lit_matches against the real invalidate_cache_for_component (a cache preloaded with one label), and
    pinned_matches against the pattern of the pinned code for names made of literal characters and single `+`"""
    rng = ctx.rng
    drv = Driver()
    conc = drv.new({'components': []}, 'default')
    terms, kept = [], []
    chars = 'ab+.:(1*?$^[]{}|\\ -_\n'
    for _ in range(n):
        pinned = rng.random() < 0.35
        s = rng.choice([0, 1, 10, 2, 11])
        if pinned:
            name = ''
            for _k in range(rng.randrange(1, 6)):
                name += rng.choice('ab1:')
                if rng.random() < 0.35:
                    name += '+'
            plat = rng.choice(['p', 'q1', 'a+', 'x:stage1:ab', 'default'])
        else:
            name = rng.choice(META_NAMES + PREFIX_NAMES) if rng.random() < 0.5 else \
                ''.join(rng.choice(chars) for _k in range(rng.randrange(1, 7)))
            plat = rng.choice(['p', 'p.q', 'a+', 'p\nq', 'default', 'x:stage1:ab', 'p:stage0:x'])
        r = rng.random()
        stage2 = s if r < 0.7 else rng.choice([0, 1, 10, 11, 100])
        if r < 0.25:
            lab_name = name
        elif r < 0.4:
            lab_name = name + rng.choice(['1', '0', 'x', '+', ':stage1:foo'])
        elif r < 0.5:
            lab_name = name[:-1]
        elif r < 0.75 and pinned:
            # a text the name matches when read as a regular expression: repeat the characters under `+`
            lab_name = re.sub(r'(.)\+', lambda m: m.group(1) * rng.randrange(1, 4), name)
        elif r < 0.85:
            lab_name = name.replace('+', '')
        else:
            lab_name = ''.join(rng.choice('ab+1:') for _k in range(rng.randrange(0, 6)))
        label = 'component:%s:stage%s:%s' % (plat, stage2, lab_name)
        if rng.random() < 0.05:
            label = label[1:]
        if pinned:
            expect = re.compile(r'component:.*:stage%s:%s' % (s, name)).match(label) is not None
        else:
            conc._cache.clear()
            conc._cache[label] = {}
            try:
                conc.invalidate_cache_for_component((s, name))
            except Exception as e:
                # (the pinned code: a name that is not a well-formed regular expression)
                ctx.disagree({'matcher': 'repaired', 'stage': s, 'name': name, 'label': label},
                             'exception %s' % type(e).__name__, 'no exception',
                             'C08 invalidate_cache_for_component vs Cache.Model.lit_matches')
                continue
            expect = label not in conc._cache.keys()
        terms.append('(%s, %s, %s, %s, %s)' % ('true' if pinned else 'false', cZ(s), cstr(name), cstr(label),
                                                'true' if expect else 'false'))
        kept.append((pinned, s, name, label, expect))
        ctx.count('matcher=%s:%s' % ('pinned' if pinned else 'repaired', 'match' if expect else 'no-match'))
    bad = ctx.model_mismatches(HEADER, terms, 'check_matcher', chunk=400, name='matcher')
    for i in bad:
        pinned, s, name, label, expect = kept[i]
        ctx.disagree({'matcher': 'pinned' if pinned else 'repaired', 'stage': s, 'name': name, 'label': label},
                     expect, (not expect), 'C08 invalidation pattern (re.match) vs Cache.Model.%s'
                     % ('pinned_matches' if pinned else 'lit_matches'))


# ------------------------------------------------------------------ case sources
def corpus_cases():
    out = []
    for p in sorted(glob.glob(os.path.join(CORPUS, '*.json'))):
        c = fix_stage_keys(json.load(open(p)))
        c['stream'] = 'corpus:' + os.path.basename(p)
        out.append(c)
    return out


EX_DOC = {'platforms': ['default', 'p'],
          'variables': {'default': {'global': {'g': 'G0', 'n': 2, 'y': 'Y0'}, 'stages': {0: {'y': 'Ys0'}}},
                        'p': {'global': {'g': 'GP'}}},
          'components': [
              {'name': 'foo', 'stage': 0, 'command': {'executable': 'e', 'arguments': '%(x)s %(g)s %(y)s'},
               'variables': {'x': 'x-foo'}},
              {'name': 'foo1', 'stage': 0, 'command': {'executable': 'e1', 'arguments': '%(x)s %(g)s'},
               'variables': {'x': 'x-foo1'}, 'override': {'p': {'command': {'arguments': 'ov %(x)s'}}}}]}
EX_ALPHABET = [
    ['Query', 'p', 0, 'foo'],
    ['Query', 'default', 0, 'foo'],
    ['Query', 'p', 0, 'foo1'],
    ['SetCompVar', 0, 'foo', 'x', 'x-new', 0],
    ['DelCompVar', 0, 'foo', 'x', 0],
    ['SetOption', 0, 'foo1', ['command', 'arguments'], 'args %(x)s %(y)s', 0],
    ['SetPlatGlobal', 'p', 'g', 'GP-new'],
    ['SetStage', 0, 'y', 'Ys0-new'],
    ['DelComp', 0, 'foo'],
    ['AddComp', {'name': 'foo', 'stage': 0, 'command': {'executable': 'e2', 'arguments': 'added %(g)s'}, 'variables': {}}],
    ['ReplaceComp', 0, 'foo1', {'name': 'foo1', 'stage': 0, 'command': {'executable': 'r', 'arguments': 'repl %(x)s'},
                                'variables': {'x': 'x-repl'}}],
    ['MutateResult'],
]
EX_SWEEP = [['Query', 'p', 0, 'foo'], ['Query', 'default', 0, 'foo'], ['Query', 'p', 0, 'foo1'], ['Query', 'default', 0, 'foo1']]


# second family: read-only calls between queries and mutators, over a document with STAGE-level blueprints on the
# default platform and on `p` whose leaves reference variables; `foo1` leaves its arguments to the blueprints
EX2_DOC = {'platforms': ['default', 'p'],
           'variables': {'default': {'global': {'g': 'G0', 'n': 2, 'y': 'Y0'}, 'stages': {0: {'y': 'Ys0'}}},
                         'p': {'global': {'g': 'GP'}}},
           'blueprint': {
               'default': {'global': {'workflowAttributes': {'maxRestarts': 1}},
                           'stages': {0: {'command': {'arguments': 'bp-args %(g)s'},
                                          'resourceManager': {'lsf': {'queue': 'dq-%(g)s'}}}}},
               'p': {'stages': {0: {'resourceManager': {'config': {'backend': 'lsf'}, 'lsf': {'queue': 'pq-%(y)s'}},
                                    'resourceRequest': {'numberProcesses': '%(n)s'}}}}},
           'components': [
               {'name': 'foo', 'stage': 0, 'command': {'executable': 'e', 'arguments': '%(x)s %(g)s'},
                'variables': {'x': 'x-foo'}, 'resourceManager': {'lsf': {'queue': 'own-%(x)s'}}},
               {'name': 'foo1', 'stage': 0, 'command': {'executable': 'e1'}, 'variables': {'x': 'x-foo1'}}]}
EX2_ALPHABET = [
    ['Query', 'p', 0, 'foo'],
    ['Query', 'default', 0, 'foo1'],
    ['ReadOnly', 'conf', 'p', 0, 'foo', 2],             # include_default, resolved, inject_missing_fields=False
    ['ReadOnly', 'conf_node', 'p', 0, 'foo', 1],        # configurationForNode(raw=True, omitDefault=True, inject=False)
    ['ReadOnly', 'instance', 'p', 0, 'foo', 8],
    ['SetGlobal', 'g', 'G-new'],
    ['SetOption', 0, 'foo1', ['resourceManager', 'lsf'], {'queue': 'set-%(g)s'}, 0],
]
EX2_SWEEP = [['Query', 'p', 0, 'foo'], ['Query', 'default', 0, 'foo'], ['Query', 'p', 0, 'foo1'], ['Query', 'default', 0, 'foo1']]


# third family: ARGUMENT IDENTITY - the mutators are handed objects that are, or share sections with, the live state
# (document EX_DOC)
EX3_ALPHABET = [
    ['Query', 'p', 0, 'foo'],
    # update_component(foo, get_component(foo, return_copy=False))
    ['ReplaceComp', 0, 'foo', {'@live': [0, 'foo', []], 'via': 1, 'else': {'name': 'foo', 'stage': 0}}],
    # update_component(foo1, {new command, the live variables and override of foo1})
    ['ReplaceComp', 0, 'foo1', {'@share': {'name': 'foo1', 'stage': 0, 'command': {'executable': 'r', 'arguments': 'shared %(x)s'}},
                                'parts': [['variables', [0, 'foo1', ['variables']]], ['override', [0, 'foo1', ['override']]]]}],
    # set_component_option(foo1, '#variables', <the live variables of foo>)
    ['SetOption', 0, 'foo1', ['variables'], {'@live': [0, 'foo', ['variables']], 'via': 0, 'else': {}}, 0],
    # set_component_option(foo, '#command', <the live command of foo>): the section that is being replaced
    ['SetOption', 0, 'foo', ['command'], {'@live': [0, 'foo', ['command']], 'via': 1, 'else': {}}, 0],
    # add_component({name foo2, the live command and variables of foo})
    ['AddComp', {'@share': {'name': 'foo2', 'stage': 0},
                 'parts': [['command', [0, 'foo', ['command']]], ['variables', [0, 'foo', ['variables']]]]}],
    ['SetCompVar', 0, 'foo', 'x', 'x-new', 0],
]
EX3_SWEEP = EX_SWEEP + [['Query', 'p', 0, 'foo2']]


# fourth family: THE ACTIVE PLATFORM - implicit-platform calls and configure_platform (document EX_DOC, constructed
# for platform p): implicit queries of two components, an explicit query, two platform switches, a mutator of another
# component (the entries of foo survive it), a platform variable set for the active platform
EX4_ALPHABET = [
    ['Query', None, 0, 'foo'],
    ['Query', None, 0, 'foo1'],
    ['Query', 'p', 0, 'foo'],
    ['ConfigurePlatform', 'default'],
    ['ConfigurePlatform', 'p'],
    ['SetCompVar', 0, 'foo1', 'x', 'x-new', 0],
    ['SetPlatGlobal', None, 'g', 'G-active'],
]
EX4_SWEEP = [['Query', None, 0, 'foo'], ['Query', None, 0, 'foo1'], ['Query', 'p', 0, 'foo'], ['Query', 'default', 0, 'foo'],
             ['ConfigurePlatform', None], ['Query', None, 0, 'foo'], ['Query', '', 0, 'foo1']]


# fifth family (round 7): THE BOUNDARY VALUES OF THE ARGUMENTS - options / variables set to an EMPTY list or dictionary
# (or to a section that holds one), through the three entry points, and the caller then filling ITS OWN objects
# (MutateArg of everything handed in so far); list-valued options (references, executors.pre, shutdownOn)
EX5_DOC = {'platforms': ['default', 'p'],
           'variables': {'default': {'global': {'g': 'G0', 'n': 2, 'y': 'Y0'}, 'stages': {0: {'y': 'Ys0'}}},
                         'p': {'global': {'g': 'GP'}}},
           'components': [
               {'name': 'foo', 'stage': 0, 'command': {'executable': 'e', 'arguments': '%(x)s %(g)s %(y)s'},
                'variables': {'x': 'x-foo'}},
               {'name': 'foo1', 'stage': 0, 'command': {'executable': 'e1', 'arguments': '%(x)s stage0.foo:ref'},
                'references': ['stage0.foo:ref'], 'variables': {'x': 'x-foo1'},
                'executors': {'pre': [{'name': 'lsf-dm-in', 'payload': 'in-%(g)s'}], 'post': []},
                'workflowAttributes': {'shutdownOn': ['KnownIssue']}}]}
EX5_ALPHABET = [
    ['Query', 'p', 0, 'foo1'],
    ['SetOption', 0, 'foo1', ['references'], [], 0],                            # set_component_option
    ['SetOption', 0, 'foo1', ['executors', 'pre'], [], 1],                      # conf.py setOptionForNode
    ['SetOption', 0, 'foo', ['variables'], {}, 2],                              # graph.py setOptionForNode
    ['SetOption', 0, 'foo1', ['workflowAttributes'], {'shutdownOn': []}, 0],    # an empty list one level down
    ['SetCompVar', 0, 'foo', 'zz', [], 0],                                      # set_component_variable
    ['MutateArg', 0, 1],
]
EX5_SWEEP = [['Query', 'p', 0, 'foo'], ['Query', 'default', 0, 'foo1'], ['Query', 'p', 0, 'foo1'], ['MutateArg', 0, 1],
             ['Query', 'p', 0, 'foo'], ['Query', 'default', 0, 'foo1'], ['Query', 'p', 0, 'foo1'], ['Query', 'default', 0, 'foo']]


def exhaustive_cases(maxlen):
    out = []
    for L in range(1, maxlen + 1):
        for seq in itertools.product(EX5_ALPHABET, repeat=L):
            out.append({'doc': EX5_DOC, 'active': 'p', 'ops': [copy.deepcopy(o) for o in seq] + copy.deepcopy(EX5_SWEEP),
                        'stream': 'exhaustive'})
    for L in range(1, maxlen + 1):
        for seq in itertools.product(EX_ALPHABET, repeat=L):
            out.append({'doc': EX_DOC, 'active': 'p', 'ops': [copy.deepcopy(o) for o in seq] + EX_SWEEP,
                        'stream': 'exhaustive'})
    for L in range(1, maxlen + 1):
        for seq in itertools.product(EX2_ALPHABET, repeat=L):
            out.append({'doc': EX2_DOC, 'active': 'p', 'ops': [copy.deepcopy(o) for o in seq] + EX2_SWEEP,
                        'stream': 'exhaustive'})
    for L in range(1, maxlen + 1):
        for seq in itertools.product(EX3_ALPHABET, repeat=L):
            out.append({'doc': EX_DOC, 'active': 'p', 'ops': [copy.deepcopy(o) for o in seq] + EX3_SWEEP,
                        'stream': 'exhaustive'})
    for L in range(1, maxlen + 1):
        for seq in itertools.product(EX4_ALPHABET, repeat=L):
            out.append({'doc': EX_DOC, 'active': 'p', 'ops': [copy.deepcopy(o) for o in seq] + EX4_SWEEP,
                        'stream': 'exhaustive'})
    return out


def random_cases(rng, n, stream):
    out = []
    for _ in range(n):
        doc, plats, ids = gen_doc(rng, 'prefix' if stream == 'live' else stream)
        r = rng.random()
        nops = rng.randrange(1, 8) if r < 0.2 else rng.randrange(8, 25) if r < 0.75 else rng.randrange(25, 41)
        out.append({'doc': doc, 'active': rng.choice(plats),
                    'ops': gen_ops(rng, plats, ids, nops, 'prefix' if stream == 'live' else stream, live=stream == 'live'),
                    'stream': stream})
    return out


def interpreter_cases(rng, n):
    """components run through an interpreter: their resolved configuration gets a final fix-up (arguments are never
    expanded) that the Coq model does not interpret, so these histories are checked against the from-scratch
    answer only (the property predicate), not against the model"""
    out = []
    for _ in range(n):
        doc, plats, ids = gen_doc(rng, 'prefix')
        for c in doc['components']:
            if rng.random() < 0.7:
                c.setdefault('command', {})['interpreter'] = rng.choice(['bash', 'javascript'])
        nops = rng.randrange(4, 20)
        out.append({'doc': doc, 'active': rng.choice(plats), 'ops': gen_ops(rng, plats, ids, nops, 'prefix'),
                    'stream': 'interpreter'})
    return out


def run(ctx):
    if GEN_ERROR:
        ctx.proof_ok = False
        ctx.proof_log += 'generation of coq/Cache/Generated.v from the running code failed: %s\n' % GEN_ERROR
        ctx.note('Generated.v could not be regenerated: %s' % GEN_ERROR)
        return
    ctx.extra['generated'] = ('coq/Cache/Generated.v (real_dflt, real_base) was regenerated from '
                              'FlowIR.default_component_structure / inject_default_values_to_component of the tree '
                              'under test at import time of harness/c08.py, before the proofs were built')
    ctx.rule = ('histories of 1-40 operations (20 kinds: 13 mutators, query, in-place change of a returned value, in-place '
                'change by the caller of an object passed to a mutator earlier, write through a live reference to a '
                'component followed by its invalidation, invalidation alone, ~7% other read-only calls of the interface - '
                'get_component_configuration with raw / include_default=False / is_primitive / inject_missing_fields=False, '
                'configurationForNode and getOptionForNode of conf.py and graph.py, instance(platform), replicate(platform), '
                'validate, copy, blueprint and environment accessors - whose results are scrambled in place; ~34% queries '
                'at random positions; in ~40% of the update_component calls, ~30% of the add_component calls and ~40% of the '
                'set_component_option calls that take a section the argument IS live state of the object - the live '
                'definition handed back, the section being replaced, the same section of another component, the live '
                'global variables of a platform - or a new dictionary sharing live sections; a live write is committed by '
                'invalidate_cache_for_component or by a mutator of that component) on a live FlowIRConcrete over documents with 3 '
                'platforms, 2-4 components at stages 0/1/10 whose names are prefixes of each other (foo/foo1/foo10/fo, '
                'stage1 vs stage10), in half of the documents stage-level blueprints with variable references on the '
                'default platform and on the others and components that leave their arguments to the blueprints; '
                'after every read-only operation raw() must be the description it was before; a separate stream with regular-expression metacharacters in component and platform '
                'names, a small stream with colons in platform names (open finding), a small stream with undisciplined live writes '
                '(outside the property: model comparison only), the corpus (first), and every history of '
                'length <= 3 (thorough: 4) over a 12-operation alphabet followed by a sweep of 4 queries, and over a '
                '7-operation alphabet (2 queries, 3 read-only calls, 2 mutators) on a document with stage-level '
                'blueprints, and over a 7-operation alphabet of mutators handed live state (the live definition, a '
                'dictionary sharing live sections, a live section of the same / another component), and over a 7-operation '
                'alphabet of implicit-platform queries, an explicit query, configure_platform(default / p), a mutator of '
                'another component and set_platform_global_variable without a platform; in the random histories ~4.5% of '
                'the operations are configure_platform(p | None | \'\' | unknown) and ~40% of the queries, ~25% of the '
                'platform setters / live getters and ~30% of the read-only calls omit the platform argument (None or \'\': '
                'the call is for the platform active at that moment; the from-scratch object is constructed for that '
                'platform); the option routes include list-valued options (references, executors.pre/post, '
                'workflowAttributes.shutdownOn/restartHookOn) and whole sections (executors, workflowAttributes, override, '
                'resourceRequest); half of the list values and a quarter of the section values are EMPTY ([] / {}), ~4% of '
                'the variable values are containers; after half of the calls that were handed an empty container (or a '
                'definition holding one) the caller fills its own objects right after a query (Query, MutateArg of all '
                'arguments, Query); + every history of length <= 3 (thorough: 4) over a 7-operation alphabet (a query, '
                'set_component_option with [] / {} / a section holding [] through flowir.py, conf.py and graph.py, '
                'set_component_variable with [], MutateArg of all arguments) followed by a sweep (3 queries, MutateArg, 4 '
                'queries); non-trivial = '
                'at least two queries and at least one mutator executed while the cache held entries; distinct by '
                '(document, history)')
    rng = ctx.rng
    quick = ctx.tier == 'quick'
    cases = corpus_cases()
    ex = exhaustive_cases(3 if quick else 4)
    ctx.count('exhaustive_histories', len(ex))
    ctx.exhaustive = True
    ctx.extra['exhaustive_scope'] = ('all histories of length <= %d over %d operations (+ 4 final queries) on one document, and '
                                     'over %d operations (queries, 3 read-only calls, 2 mutators) on a document with '
                                     'stage-level blueprints, and over %d operations handed live state (argument identity), '
                                     'and over %d operations with omitted platform arguments and configure_platform '
                                     '(+ a sweep of 7: implicit / explicit queries, configure_platform(None), implicit queries), '
                                     'and over %d operations handed EMPTY containers through the three entry points of '
                                     'set_component_option and set_component_variable, with the caller filling its own '
                                     'objects afterwards (+ a sweep of 8)'
                                     % (3 if quick else 4, len(EX_ALPHABET), len(EX2_ALPHABET), len(EX3_ALPHABET),
                                        len(EX4_ALPHABET), len(EX5_ALPHABET)))
    cases += ex
    cases += random_cases(rng, 420 if quick else 2500, 'prefix')
    cases += random_cases(rng, 200 if quick else 1200, 'meta')
    cases += random_cases(rng, 25 if quick else 100, 'colon')
    cases += random_cases(rng, 60 if quick else 300, 'live')
    cases += interpreter_cases(rng, 120 if quick else 600)
    explore(ctx, cases)
    ctx.count('cases', len(cases))
    matcher_check(ctx, 1200 if quick else 6000)


def replay(ctx, path):
    d = json.load(open(path))
    c = d.get('case') or d.get('first', {}).get('case')
    if not isinstance(c, dict) or 'doc' not in c:
        print('replay file names no input (proof obligation): re-run ./check C08')
        return 2
    c = fix_stage_keys(c)
    explore(ctx, [c])
    for f in ctx.failures:
        print('REPRODUCED: %s' % f['what'])
    for f in ctx.disagreements:
        print('DISAGREEMENT: impl=%s model=%s' % (str(f['impl'])[:1500], str(f['model'])[-1500:]))
    return 1 if (ctx.failures or ctx.disagreements) else 0
