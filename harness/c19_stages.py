"""C19 — stage indices spelled as text (stream S of harness/c19.py), against coq/Dosini/Stages.v.

The legacy format names a stage by the word stage/STAGE followed by its decimal index: the `stages` entry of an output
(`stages = stage2,stage10`), the section names of status.conf ([STAGE10]).  Driven, all real code:
 * Dosini._dump_output on an output section whose entries list arbitrary stage indices (one, two, three digits, long lists,
   repeated and unsorted indices, the empty list), the file read with dosini_to_dict exactly as load_from_directory does,
   Dosini.parse_output on what was read: text written vs Stages.write_stages, indices read vs Stages.read_stages, and the
   property itself (indices read == indices written);
 * Dosini.parse_output on hand-written `stages` texts (blanks around commas, empty items, Stage/STAGE spellings, broken
   items) vs Stages.read_stages;
 * Dosini._dump_status / dosini_to_dict / Dosini.parse_status on status sections of arbitrary stage indices, and
   parse_status on hand-written section names, vs Stages.status_name / status_index.
"""
import os
import shutil
import tempfile

from common import cstr, clist, copt

HEADER = 'Require Import V.Lib.JTree V.Dosini.Stages.\nOpen Scope string_scope.'


def cN(n):
    return '%d%%N' % n


def olist(l):
    return copt(None if l is None else clist(l, cN))


def real_output(outputs, tmp):
    """{name: [indices]} -> {name: (text of the stages entry, indices read or None)}"""
    import experiment.model.frontends.dosini as D
    d = tempfile.mkdtemp(dir=tmp)
    flowir = {'output': {n: {'data-in': 'f.txt:copy', 'stages': list(l)} for n, l in outputs.items()}, 'components': []}
    D.Dosini._dump_output(flowir, d)
    read = D.dosini_to_dict(os.path.join(d, 'output.conf'), [], consider_meta_as_section=True)
    res = {}
    for n in outputs:
        txt = read.get(n, {}).get('stages')
        res[n] = (txt, real_parse_stages(txt) if txt is not None else None)
    return res


def real_parse_stages(text):
    import experiment.model.frontends.dosini as D
    try:
        got = D.Dosini.parse_output({}, {'out': {'stages': text, 'data-in': 'f.txt:copy'}})
        return [int(x) for x in got['output']['out']['stages']]
    except Exception:            # AssertionError / ValueError of the unchanged reader; any exception = not read
        return None


def real_status(indices, tmp):
    """[indices] -> {index: (section name written, index read or None)}"""
    import experiment.model.frontends.dosini as D
    d = tempfile.mkdtemp(dir=tmp)
    flowir = {'status-report': {n: {'stage-weight': 0.5} for n in indices}, 'components': []}
    D.Dosini._dump_status(flowir, d)
    read = D.dosini_to_dict(os.path.join(d, 'status.conf'), [], consider_meta_as_section=True)
    names = [s for s in read if s not in ('DEFAULT', 'META')]
    res = {}
    for n, name in zip(indices, names):          # sections are written and read in the order of the dictionary
        res[n] = (name, real_parse_status(name))
    return res


def real_parse_status(name):
    import experiment.model.frontends.dosini as D
    try:
        got = D.Dosini.parse_status({}, {name: {'stage-weight': '0.5'}})
        ks = list(got['status-report'])
        return int(ks[0]) if len(ks) == 1 else None
    except Exception:            # AssertionError / ValueError of the unchanged reader; any exception = not read
        return None


def gen_index(rng):
    r = rng.random()
    if r < 0.3:
        return rng.randrange(0, 10)
    if r < 0.75:
        return rng.randrange(10, 100)
    if r < 0.95:
        return rng.randrange(100, 1200)
    return rng.choice([10, 11, 19, 20, 99, 100, 101, 1000, 12345678901234567890])


FIXED_LISTS = [[], [0], [9], [10], [11], [2, 10, 11], [10, 1, 0], [100, 10, 1], [21, 12], [7, 7], list(range(13))]
FIXED_TEXTS = ['', 'stage2', 'stage10', 'stage2,stage10,stage11', 'stage2, stage10', ' stage3 ,, stage12 ,', 'Stage10', 'STAGE11,stage1',
               'stage', 'stag10', 'stage1x', '10', 'stage10.5', 'stage007', ',', 'stage10;stage11', 'sTaGe42\t,\nstage5']
FIXED_SECTIONS = ['STAGE0', 'STAGE10', 'STAGE11', 'STAGE100', 'stage10', 'Stage1', 'STAGE', 'STAGEx', 'STAGE1.0', 'STAGE010', 'XSTAGE1']


def gen_text(rng):
    items = []
    for _ in range(rng.choice([1, 2, 3, 5])):
        w = rng.choice(['stage', 'stage', 'stage', 'Stage', 'STAGE', 'stag', 'sTAGe'])
        idx = str(gen_index(rng)) if rng.random() < 0.9 else rng.choice(['', 'x', '1x', '1.0'])
        it = w + idx
        if rng.random() < 0.3:
            it = rng.choice([' ', '  ', '\t']) + it
        if rng.random() < 0.3:
            it = it + rng.choice([' ', '\t '])
        items.append(it)
        if rng.random() < 0.1:
            items.append(rng.choice(['', ' ']))
    return ','.join(items)


def explore(ctx, n, only=None):
    """only: the case of a replay file (one list of stages, one text, one status index or one section name)"""
    rng = ctx.rng
    fixed_lists, fixed_texts, fixed_idx, fixed_sections = FIXED_LISTS, FIXED_TEXTS, [0, 9, 10, 11, 99, 100], FIXED_SECTIONS
    if only is not None:
        fixed_lists = [only['stages']] if 'stages' in only else []
        fixed_texts = [only['stages_text']] if 'stages_text' in only else []
        fixed_idx = [only['status_stage']] if 'status_stage' in only else []
        fixed_sections = [only['status_section']] if 'status_section' in only else []
    tmp = tempfile.mkdtemp(prefix='verif_c19s_')
    NAMES = {'SOut': 'C19 output stages: Dosini._dump_output + parse_output vs Dosini.Stages.write_stages / read_stages',
             'SText': 'C19 output stages: Dosini.parse_output vs Dosini.Stages.read_stages',
             'SStat': 'C19 status sections: Dosini._dump_status + parse_status vs Dosini.Stages.status_name / status_index',
             'SSect': 'C19 status sections: Dosini.parse_status vs Dosini.Stages.status_index'}
    terms, keep = [], []
    try:
        # ---- written lists
        lists = [list(l) for l in fixed_lists]
        for _ in range(n):
            lists.append([gen_index(rng) for _ in range(rng.choice([1, 1, 2, 3, 6]))])
        outputs = {'out%d' % i: l for i, l in enumerate(lists)}
        res = real_output(outputs, tmp)
        for i, l in enumerate(lists):
            txt, got = res['out%d' % i]
            ctx.case(['S-out', l], len(l) >= 1)
            ctx.count('S_output_stage_lists')
            if any(x >= 10 for x in l):
                ctx.count('S_output_lists_naming_stage_10_or_later')
            desc = {'stream': 'S', 'stages': l}
            if got != l:
                ctx.fail(dict(desc, written=txt, loaded=got), 'the output section differs after the round trip [stages]', [])
            terms.append('(SOut %s %s %s)' % (clist(l, cN), cstr(txt if txt is not None else '<no entry>'), olist(got)))
            keep.append(('SOut', desc, {'written': txt, 'loaded': got}))
        # ---- hand-written texts
        for t in list(fixed_texts) + [gen_text(rng) for _ in range(n)]:
            got = real_parse_stages(t)
            ctx.case(['S-text', t], True)
            ctx.count('S_stage_texts')
            terms.append('(SText %s %s)' % (cstr(t), olist(got)))
            keep.append(('SText', {'stream': 'S', 'stages_text': t}, got))
        # ---- status sections
        idx = sorted(set(fixed_idx + [gen_index(rng) for _ in range(max(n // 4, 5) if only is None else 0)]))
        rng.shuffle(idx)
        res = real_status(idx, tmp)
        for k in idx:
            name, got = res.get(k, (None, None))
            ctx.case(['S-status', k], True)
            ctx.count('S_status_sections')
            desc = {'stream': 'S', 'status_stage': k}
            if got != k:
                ctx.fail(dict(desc, written=name, loaded=got), 'the status section differs after the round trip [stage index]', [])
            terms.append('(SStat %s %s %s)' % (cN(k), cstr(name if name is not None else '<no section>'),
                                               copt(None if got is None else cN(got))))
            keep.append(('SStat', desc, {'written': name, 'loaded': got}))
        for name in fixed_sections:
            got = real_parse_status(name)
            ctx.case(['S-section', name], True)
            terms.append('(SSect %s %s)' % (cstr(name), copt(None if got is None else cN(got))))
            keep.append(('SSect', {'stream': 'S', 'status_section': name}, got))
        for i in ctx.model_mismatches(HEADER, terms, 'check_stage_case', chunk=400, name='S'):
            kind, desc, impl = keep[i]
            ctx.disagree(desc, impl, '', NAMES[kind])
    finally:
        shutil.rmtree(tmp, ignore_errors=True)
