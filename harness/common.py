"""Shared machinery of the /verif checks: Coq build + audit, model evaluation by generated
cases.v files, known-findings matching, replay and evidence writing.

Every per-property harness module (harness/cNN.py) exposes

    PROP   = 'CNN'
    COQ_DIR = 'Weights'                 # directory under coq/ holding Model/Proofs/Property[/Refuted]
    def run(ctx): ...                   # drives the implementation, uses ctx.* to record results

and is run by /verif/check.
"""
import hashlib
import json
import os
import random
import re
import shutil
import subprocess
import sys
import time
import traceback

VERIF = os.path.dirname(os.path.dirname(os.path.abspath(__file__)))
REPO = os.environ.get('VERIF_REPO', '/repo')
COQ = os.path.join(VERIF, 'coq')
WORK = os.path.abspath(os.environ.get('VERIF_WORK_DIR') or os.path.join(VERIF, '.work'))
EVID = os.path.abspath(os.environ.get('VERIF_EVIDENCE_DIR') or os.path.join(VERIF, 'evidence'))
REPL = os.path.abspath(os.environ.get('VERIF_REPLAY_DIR') or os.path.join(VERIF, 'replays'))
PY = '/venv/bin/python'
NPROC = max(1, min(int(os.environ.get("VERIF_NPROC", "16")), os.cpu_count() or 4))   # VERIF_NPROC: fewer coqc side by side (each shard can take ~1 GB)

FORBIDDEN = re.compile(r'\b(Admitted|admit|Axiom|Axioms|Parameter|Parameters|Conjecture|Conjectures|'
                       r'Hypothesis|Hypotheses|Variable|Variables|Context)\b|Unset\s+Guard|bypass_check|'
                       r'type-in-type|impredicative-set|Admit\s+Obligations|Unset\s+Universe\s+Checking|'
                       r'Unset\s+Positivity')


# ------------------------------------------------------------------ Coq term printers
def cstr(s):
    """Python str -> Coq string literal (bytes of the utf-8 encoding; only ASCII is generated)."""
    if isinstance(s, bytes):
        s = s.decode('latin-1')
    out = []
    plain = True
    for ch in s:
        o = ord(ch)
        if o < 32 or o > 126:
            plain = False
            break
    if plain:
        return '"' + s.replace('"', '""') + '"%string'
    # non printable: build with String (ascii_of_nat n)
    b = s.encode('utf-8') if not isinstance(s, bytes) else s
    t = 'EmptyString'
    for o in reversed(b):
        t = '(String (Ascii.ascii_of_nat %d) %s)' % (o, t)
    return t


def cnat(n):
    assert 0 <= n < 5000, n
    return '%d%%nat' % n


def cZ(n):
    return '(%d)%%Z' % n


def cbool(b):
    return 'true' if b else 'false'


def clist(xs, f=lambda x: x):
    return '[' + '; '.join(f(x) for x in xs) + ']'


def copt(x, f=lambda x: x):
    return 'None' if x is None else '(Some %s)' % f(x)


def cpair(a, b):
    return '(%s, %s)' % (a, b)


def cjv(o):
    """Python object (YAML/JSON-like) -> Coq term of type V.Lib.JTree.jv"""
    if o is None:
        return 'JNull'
    if isinstance(o, bool):
        return '(JBool %s)' % cbool(o)
    if isinstance(o, int):
        return '(JInt %s)' % cZ(o)
    if isinstance(o, float):
        return '(JFlt %s)' % cstr(repr(o))
    if isinstance(o, (str, bytes)):
        return '(JStr %s)' % cstr(o)
    if isinstance(o, (list, tuple)):
        return '(JList %s)' % clist(o, cjv)
    if isinstance(o, dict):
        return '(JDict %s)' % clist(list(o.items()), lambda kv: '(%s, %s)' % (cstr(str(kv[0])), cjv(kv[1])))
    raise TypeError('cjv: %r' % (o,))


# ------------------------------------------------------------------ subprocess helpers
def sh(cmd, timeout=900, cwd=None, env=None):
    t0 = time.time()
    try:
        p = subprocess.run(cmd, shell=isinstance(cmd, str), cwd=cwd, env=env, timeout=timeout,
                           stdout=subprocess.PIPE, stderr=subprocess.STDOUT)
        return p.returncode, p.stdout.decode('utf-8', 'replace'), time.time() - t0
    except subprocess.TimeoutExpired as e:
        return 124, (e.stdout or b'').decode('utf-8', 'replace') + '\nTIMEOUT', time.time() - t0


def ensure_coq_makefile():
    """(Re)generate coq/_CoqProject and coq/Makefile from the .v files present (committed sources only)."""
    files = []
    for root, _dirs, fs in os.walk(COQ):
        for f in fs:
            if f.endswith('.v') and not f.startswith('cases') and '.work' not in root:
                files.append(os.path.relpath(os.path.join(root, f), COQ))
    files.sort()
    proj = '-Q . V\n-arg -w -arg -notation-overridden,-deprecated-hint-without-locality,' \
           '-deprecated-instance-without-locality,-ambiguous-paths,-require-in-module\n' + '\n'.join(files) + '\n'
    pj = os.path.join(COQ, '_CoqProject')
    old = open(pj).read() if os.path.exists(pj) else None
    if old != proj or not os.path.exists(os.path.join(COQ, 'Makefile')):
        open(pj, 'w').write(proj)
        rc, out, _ = sh('coq_makefile -f _CoqProject -o Makefile', cwd=COQ, timeout=120)
        if rc != 0:
            raise RuntimeError('coq_makefile failed: ' + out)


def coq_make(targets, timeout=1500, jobs=NPROC):
    ensure_coq_makefile()
    cmd = 'timeout %d make -j%d %s' % (timeout, jobs, ' '.join(targets))
    return sh(cmd, cwd=COQ, timeout=timeout + 30)


def coqc(path, timeout=600):
    return sh('timeout %d coqc -q -Q . V -w -notation-overridden,-deprecated-hint-without-locality,'
              '-deprecated-instance-without-locality,-ambiguous-paths %s' % (timeout, path),
              cwd=COQ, timeout=timeout + 30)


def scan_forbidden(coq_dirs):
    """grep the development for declarations that would widen the trusted base."""
    hits = []
    for d in coq_dirs:
        for root, _dirs, fs in os.walk(os.path.join(COQ, d)):
            for f in fs:
                if not f.endswith('.v'):
                    continue
                txt = open(os.path.join(root, f)).read()
                # strip comments (nested comments are rare here; handle one level of nesting)
                prev = None
                while prev != txt:
                    prev = txt
                    txt = re.sub(r'\(\*(?:(?!\(\*|\*\)).)*\*\)', ' ', txt, flags=re.S)
                # strip string literals
                txt2 = re.sub(r'"(?:[^"]|"")*"', '""', txt)
                # Section-local Variable/Hypothesis/Context are allowed: find text outside sections
                depth = 0
                for ln_no, ln in enumerate(txt2.split('\n'), 1):
                    if re.match(r'\s*Section\s+\w+', ln):
                        depth += 1
                    m = FORBIDDEN.search(ln)
                    if m:
                        w = m.group(0)
                        if depth > 0 and w.split()[0] in ('Variable', 'Variables', 'Hypothesis', 'Hypotheses',
                                                          'Context'):
                            pass
                        else:
                            hits.append('%s:%d: %s' % (os.path.join(d, f), ln_no, ln.strip()[:120]))
                    if re.match(r'\s*End\s+\w+\s*\.', ln) and depth > 0:
                        depth -= 1
    return hits


def parse_assumptions(out):
    """Split coqc output of a Property.v (Print Assumptions after each theorem) into a dict."""
    res = []
    cur = None
    for ln in out.split('\n'):
        if ln.startswith('Closed under the global context'):
            res.append('closed under the global context')
            cur = None
        elif ln.startswith('Axioms:'):
            cur = []
            res.append(cur)
        elif cur is not None:
            if ln.strip() == '' or ln.startswith('Fetching') or ln.startswith('File '):
                cur = None
            else:
                cur.append(ln.strip())
    flat = []
    for r in res:
        if isinstance(r, list):
            flat.append('Axioms: ' + ' '.join(r))
        else:
            flat.append(r)
    return flat


# ------------------------------------------------------------------ context
class Ctx(object):
    def __init__(self, prop, tier, seed, coq_dir, level='proof'):
        self.prop = prop
        self.tier = tier
        self.seed = seed
        self.coq_dir = coq_dir
        self.level = level
        self.rng = random.Random(seed * 1000003 + int(hashlib.md5(prop.encode()).hexdigest()[:6], 16))
        self.t0 = time.time()
        self.evaluations = 0
        self.nontrivial = set()
        self.hist = {}
        self.samples = []
        self.assumptions = []
        self.trusted = []
        self.theorems = []
        self.obligations = 0
        self.discharged = 0
        self.proof_ok = True
        self.proof_log = ''
        self.failures = []          # property-predicate failures on the implementation
        self.disagreements = []     # model vs implementation
        self.model_cases = 0
        self.known_lines = []
        self.notes = []
        self.extra = {}
        self.rule = ''
        self.exhaustive = False
        self.workdir = os.path.join(WORK, prop)
        shutil.rmtree(self.workdir, ignore_errors=True)
        os.makedirs(self.workdir, exist_ok=True)
        self.findings = [f for f in load_known() if f['property'] == prop]

    # ---- counters
    def count(self, key, n=1):
        self.hist[key] = self.hist.get(key, 0) + n

    def case(self, canonical, nontrivial):
        """register one explored case; canonical is any hashable/JSON-able description"""
        self.evaluations += 1
        if nontrivial:
            h = hashlib.md5(json.dumps(canonical, sort_keys=True, default=str).encode()).hexdigest()
            self.nontrivial.add(h)

    def sample(self, x, limit=6):
        if len(self.samples) < limit:
            self.samples.append(x)

    def note(self, s):
        self.notes.append(s)
        print('NOTE: ' + s)

    # ---- outcomes
    def fail(self, case, what, classes=()):
        """the property predicate is false on the implementation for `case`.
        classes: names of known-finding classes this case belongs to (computed by the harness)."""
        self.failures.append({'case': case, 'what': what, 'classes': list(classes)})

    def disagree(self, case, impl, model, name):
        self.disagreements.append({'case': case, 'impl': impl, 'model': model, 'correspondence': name})

    # ---- Coq side
    def build_proofs(self):
        """make the property's .vo files; then re-run coqc on Property.v (and Refuted.v) to collect
        Print Assumptions. Sets proof_ok/obligations/discharged/trusted."""
        d = self.coq_dir
        files = sorted(f for f in os.listdir(os.path.join(COQ, d)) if f.endswith('.v'))
        hits = scan_forbidden(['Lib', d])
        if hits:
            self.proof_ok = False
            self.proof_log += 'forbidden declarations:\n' + '\n'.join(hits) + '\n'
        targets = ['%s/%s' % (d, f[:-2] + '.vo') for f in files if f not in ('Property.v', 'Refuted.v')]
        rc, out, dt = coq_make(['Lib/Harness.vo'] + targets)
        self.extra['coq_make_s'] = round(dt, 1)
        if rc != 0:
            self.proof_ok = False
            self.proof_log += out[-4000:]
        # property theorems
        for f in ('Property.v', 'Refuted.v'):
            p = os.path.join(COQ, d, f)
            if not os.path.exists(p):
                continue
            txt = open(p).read()
            names = re.findall(r'^\s*(?:Theorem|Example)\s+(\w+)', txt, flags=re.M)
            thms = re.findall(r'^\s*Theorem\s+(\w+)', txt, flags=re.M)
            self.obligations += len(thms)
            rc2, out2, dt2 = coqc('%s/%s' % (d, f)) if rc == 0 else (1, 'skipped: dependencies failed', 0)
            if rc2 == 0:
                self.discharged += len(thms)
                self.theorems += thms
                ass = parse_assumptions(out2)
                self.extra.setdefault('print_assumptions', {})[f] = ass
                for a in ass:
                    if a not in self.trusted:
                        self.trusted.append(a)
                if len(ass) < len(thms):
                    self.proof_ok = False
                    self.proof_log += '%s: %d theorems but %d Print Assumptions\n' % (f, len(thms), len(ass))
            else:
                self.proof_ok = False
                self.proof_log += '\n' + f + ':\n' + out2[-3000:]
            _ = names
        if self.obligations == 0:
            self.proof_ok = False
            self.proof_log += 'no theorems found\n'
        return self.proof_ok

    def coqchk(self):
        d = self.coq_dir
        rc, out, dt = sh('timeout 1500 coqchk -silent -o -Q . V V.%s.Property' % d, cwd=COQ, timeout=1600)
        self.extra['coqchk'] = {'rc': rc, 'wall_s': round(dt, 1), 'tail': out[-1500:]}
        if rc != 0:
            self.proof_ok = False
            self.proof_log += 'coqchk failed:\n' + out[-2000:]

    def model_mismatches(self, header, case_terms, checker, chunk=300, name='model', timeout=900):
        """Evaluate, inside Coq, `checker case` : bool for every case term (a Coq term of the
        case type, typically (input, impl_output)); returns the indices where it is false.
        header: Coq vernacular (Requires); checker: Coq term of type case -> bool."""
        n = len(case_terms)
        self.model_cases += n
        if n == 0:
            return []
        shards = [(i, case_terms[i:i + chunk]) for i in range(0, n, chunk)]
        paths = []
        for k, (off, terms) in enumerate(shards):
            p = os.path.join(self.workdir, 'cases_%s_%d.v' % (name, k))
            with open(p, 'w') as f:
                f.write('From Coq Require Import String List ZArith Ascii Bool.\nImport ListNotations.\n'
                        'Require Import V.Lib.Harness.\n' + header + '\n')
                # one definition per case keeps each term small for the parser
                f.write('Definition chk := %s.\n' % checker)
                f.write('Definition cases := cases_for chk ' + clist(terms) + '.\n')
                f.write('Eval vm_compute in (mismatch_idx chk cases).\n')
            paths.append((off, p))
        listing = os.path.join(self.workdir, 'shards_%s.txt' % name)
        open(listing, 'w').write('\n'.join(p for _, p in paths) + '\n')
        cmd = ("cat %s | xargs -P %d -I{} sh -c 'ulimit -s unlimited 2>/dev/null; timeout %d coqc -q -Q %s V "
               "-w -notation-overridden {} > {}.out 2>&1; echo $? > {}.rc'" % (listing, NPROC, timeout, COQ))
        sh(cmd, timeout=timeout * (1 + len(paths) // NPROC) + 60)
        # a shard that was killed from outside (rc 137: the machine ran out of memory while other work was going on)
        # says nothing about the model: evaluate it once more, alone
        for off, p in paths:
            rc = open(p + '.rc').read().strip() if os.path.exists(p + '.rc') else '?'
            if rc in ('137', '?'):
                sh("sh -c 'ulimit -s unlimited 2>/dev/null; timeout %d coqc -q -Q %s V -w -notation-overridden %s > %s.out 2>&1; "
                   "echo $? > %s.rc'" % (timeout, COQ, p, p, p), timeout=timeout + 60)
        bad = []
        for off, p in paths:
            rc = open(p + '.rc').read().strip() if os.path.exists(p + '.rc') else '?'
            out = open(p + '.out').read() if os.path.exists(p + '.out') else ''
            m = re.search(r'=\s*\[([^\]]*)\]\s*:\s*list nat', out.replace('\n', ' '))
            if rc != '0' or not m:
                raise RuntimeError('model evaluation failed for %s (rc=%s): %s' % (p, rc, out[-2000:]))
            body = m.group(1).strip()
            if body:
                for tok in body.split(';'):
                    bad.append(off + int(tok.strip().replace('%nat', '')))
        return sorted(bad)

    def model_eval(self, header, term, timeout=300):
        """Eval vm_compute of an arbitrary term, returns the raw Coq output (for replays)."""
        p = os.path.join(self.workdir, 'eval_%d.v' % int(time.time() * 1000))
        with open(p, 'w') as f:
            f.write('From Coq Require Import String List ZArith Ascii.\nImport ListNotations.\n' + header + '\n')
            f.write('Eval vm_compute in (%s).\n' % term)
        rc, out, _ = sh('timeout %d coqc -q -Q %s V -w -notation-overridden %s' % (timeout, COQ, p), timeout=timeout + 30)
        return out.strip()


# ------------------------------------------------------------------ known findings
def load_known():
    p = os.path.join(VERIF, 'known_findings.json')
    if not os.path.exists(p):
        return []
    return json.load(open(p))['findings']


def write_replay(prop, kind, payload):
    os.makedirs(REPL, exist_ok=True)
    h = hashlib.md5(json.dumps(payload, sort_keys=True, default=str).encode()).hexdigest()[:10]
    p = os.path.join(REPL, '%s_%s_%s.json' % (prop, kind, h))
    payload = dict(payload)
    payload['property'] = prop
    payload['kind'] = kind
    json.dump(payload, open(p, 'w'), indent=1, default=str)
    return os.path.relpath(p, VERIF)


def finish(ctx, level_note_assumptions):
    """Decide, print KNOWN-FINDING / VIOLATION lines, write evidence, return exit code."""
    rc = 0
    violations = 0
    open_findings = {f['class']: f for f in ctx.findings if f.get('status') == 'open'}
    printed = set()
    # 1. predicate failures on the implementation
    unknown = []
    for fl in ctx.failures:
        matched = [c for c in fl['classes'] if c in open_findings]
        if matched:
            for c in matched[:1]:
                if c not in printed:
                    printed.add(c)
                    print('KNOWN-FINDING: property=%s %s [%s]' % (ctx.prop, open_findings[c]['what'], open_findings[c]['id']))
            ctx.count('known_finding_hits')
        else:
            unknown.append(fl)
    seen = set()
    for fl in unknown:
        key = fl['what']
        if key in seen:
            continue
        seen.add(key)
        if len(seen) > 5:
            break
        violations += 1
        path = write_replay(ctx.prop, 'property-violation', fl)
        print('VIOLATION property=%s replay=%s' % (ctx.prop, path))
        rc = 1
    # 2. proof obligations / correspondence without a failing input
    if not unknown:
        if not ctx.proof_ok:
            violations += 1
            path = write_replay(ctx.prop, 'proof', {'theorem_or_correspondence': 'coq/%s (build of the property theorems)' % ctx.coq_dir,
                                                    'log': ctx.proof_log[-6000:]})
            print('VIOLATION property=%s replay=%s no-failing-input-found' % (ctx.prop, path))
            rc = 1
        if ctx.disagreements:
            violations += 1
            d0 = ctx.disagreements[0]
            path = write_replay(ctx.prop, 'correspondence',
                                {'theorem_or_correspondence': d0['correspondence'], 'first': d0,
                                 'count': len(ctx.disagreements), 'more': ctx.disagreements[1:5]})
            print('VIOLATION property=%s replay=%s no-failing-input-found' % (ctx.prop, path))
            rc = 1
    elif ctx.disagreements or not ctx.proof_ok:
        ctx.note('proof/correspondence also broken: %s' % (ctx.proof_log[-300:] or ctx.disagreements[0]['correspondence']))
    for f in ctx.findings:
        if f.get('status') == 'open' and f['class'] not in printed and f.get('replayed') is False:
            ctx.note('known finding %s did not reproduce on this tree (stale entry?)' % f['id'])
    ev = {
        'property_id': ctx.prop, 'tier': ctx.tier, 'seed': ctx.seed, 'level': ctx.level,
        'coverage': {
            'obligations': ctx.obligations, 'discharged': ctx.discharged,
            'checker_cmd': 'make -C coq %s/*.vo (coqc 8.16.1, full .vo build) + coqc %s/Property.v [Print Assumptions]'
                           % (ctx.coq_dir, ctx.coq_dir) + ('; coqchk -o' if 'coqchk' in ctx.extra else ''),
            'trusted_base': ctx.trusted + ['Coq 8.16.1 kernel + vm_compute (no native_compute)',
                                           'harness/%s.py (generators, drivers, canonicalisation)' % ctx.prop.lower(),
                                           'hand-written model coq/%s/Model.v tied by the correspondence run' % ctx.coq_dir],
            'theorems': ctx.theorems,
            'evaluations': ctx.evaluations, 'distinct_nontrivial': len(ctx.nontrivial), 'rule': ctx.rule,
            'samples': ctx.samples, 'model_cases_evaluated_in_coq': ctx.model_cases,
            'disagreements_checked': ctx.model_cases, 'disagreements_found': len(ctx.disagreements),
            'predicate_failures': len(ctx.failures), 'known_finding_hits': ctx.hist.get('known_finding_hits', 0),
            'input_distribution': ctx.hist, 'exhaustive': ctx.exhaustive, 'notes': ctx.notes,
        },
        'assumptions': level_note_assumptions + ctx.assumptions,
        'wall_s': round(time.time() - ctx.t0, 2),
        'violations': violations,
    }
    ev['coverage'].update(ctx.extra)
    os.makedirs(EVID, exist_ok=True)
    json.dump(ev, open(os.path.join(EVID, ctx.prop + '.json'), 'w'), indent=1, default=str)
    shutil.rmtree(ctx.workdir, ignore_errors=True)
    print('%s %s: obligations %d/%d, cases %d (nontrivial %d), model cases %d, disagreements %d, failures %d -> %s (%.1fs)'
          % (ctx.prop, ctx.tier, ctx.discharged, ctx.obligations, ctx.evaluations, len(ctx.nontrivial), ctx.model_cases,
             len(ctx.disagreements), len(ctx.failures), 'OK' if rc == 0 else 'VIOLATION', time.time() - ctx.t0))
    return rc


def impl_env():
    env = dict(os.environ)
    env['PYTHONPATH'] = os.path.join(REPO, 'python') + os.pathsep + os.path.join(VERIF, 'harness')
    env['PYTHONHASHSEED'] = '0'
    env['ST4SD_RUNTIME_CORE_VERIF'] = '1'
    return env
