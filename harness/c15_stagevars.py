"""C15 — STAGE-level variables of the package itself (variables.<platform>.stages.N) and the loop of
FlowIRConcrete.instance() that resolves them (reached from replicate(), i.e. from every primitive=False load, and
from the writer of conf/flowir_instance.yaml).

The loop visits the stages in the order in which the SET of component ids yields them (per process, per hash seed),
so "the same in every process" needs: what a stage resolves must not depend on the stages visited before it.

  * gen_stagevars_doc: FlowIR with 2-4 stages; a small pool of variables defined at global level, overridden at
    stage level by SOME stages (and by a platform, at global and stage level); derived stage variables
    `workdir: %(base)s/...` that reference pool variables their own stage may not define - mostly at least one stage
    references a variable which it does not define but ANOTHER stage does (the class in which a context that leaks
    from one visit to the next shows), now and then a variable that only another stage defines (unknown here: kept as
    written), chains (deep -> workdir -> base), integers, a stage with variables but no component (never visited).
  * gen_stagevars_pkg: such a document as a package on disk, components using the derived variables in their
    command lines, loaded REPLICATED (Experiment.experimentFromPackage) in the 6 processes; besides the byte
    comparison of the dumps, the stage variables each process serves are compared with the value computed here.
  * inprocess: the real FlowIRConcrete.instance() on such documents (platform default / plat, is_primitive both)
    vs Det.StageVars.walk inside Coq (the stages the implementation visited, in ascending and descending order), and
    the predicate that mirrors C15_stage_variables_read_own_stage_only: the variables a stage resolves are the ones
    it resolves in the package from which the variables of all OTHER stages were deleted."""
import copy
import re

from common import clist, cstr, cpair, cjv, cbool

POOL = ['base', 'root', 'tag', 'site']
DERIVED = ['workdir', 'label', 'out']
HEADER = 'Require Import V.Lib.JTree V.Det.StageVars.\nOpen Scope string_scope.'
_REF = re.compile(r'%\(([A-Za-z_][A-Za-z0-9_]*)\)s')


def gen_stagevars_doc(rng, safe=False):
    """-> (doc, platform to load, info).  safe: every derived variable resolves (the components use them)"""
    nst = rng.choice([2, 3, 3, 4])
    gl = {n: '/g-%s' % n for n in rng.sample(POOL, rng.randint(2, 4))}
    if 'root' in gl and 'base' in gl and rng.random() < 0.3:
        gl['root'] = '%(base)s/g-root'
    stages = {}
    for s in range(nst):
        sv = {}
        for n in POOL:
            if rng.random() < 0.35:
                sv[n] = '/s%d-%s' % (s, n)
        stages[s] = sv
    # the boundary on purpose: v is global, `low` does not define it, some other stage does, `low` references it
    sensitive = rng.random() < 0.75
    forced = {}
    if sensitive:
        v = rng.choice(sorted(gl))
        low = rng.randrange(nst)
        stages[low].pop(v, None)
        other = rng.choice([s for s in range(nst) if s != low])
        stages[other][v] = '/s%d-%s' % (other, v)
        forced[low] = v
    for s in range(nst):
        sv = stages[s]
        for d in rng.sample(DERIVED, rng.randint(1, 3)):
            cands = sorted(set(gl) | set(sv)) if safe or rng.random() < 0.85 else POOL
            ref = forced.pop(s) if s in forced else rng.choice(cands)
            sv[d] = '%%(%s)s/%s%d' % (ref, d, s)
            if rng.random() < 0.2:
                sv[d] += '-%%(%s)s' % rng.choice(sorted(set(gl) | set(sv) - {d}))
        if 'workdir' in sv and rng.random() < 0.4:
            sv['deep'] = '%(workdir)s/deep'
        if rng.random() < 0.2:
            sv['count'] = rng.randint(0, 9)
        if not safe and rng.random() < 0.12:
            # defined at stage level by ANOTHER stage only (unknown in this one: kept as written)
            o = rng.choice([x for x in range(nst) if x != s])
            stages[o].setdefault('only%d' % o, '/only-%d' % o)
            sv['orphan'] = '%%(only%d)s/orphan' % o
    variables = {'default': {'global': gl, 'stages': stages}}
    platform = None
    if rng.random() < 0.4:
        pg = {n: '/p-%s' % n for n in rng.sample(POOL, rng.randint(0, 2))}
        ps = {}
        for s in range(nst):
            if rng.random() < 0.5:
                ps[s] = {n: '/p%d-%s' % (s, n) for n in rng.sample(POOL + ['workdir'], rng.randint(1, 2))}
                if 'workdir' in ps[s]:
                    ps[s]['workdir'] = '%%(%s)s/pw%d' % (rng.choice(sorted(gl)), s)
        variables['plat'] = {'global': pg, 'stages': ps}
        if rng.random() < 0.6:
            platform = 'plat'
    comps = []
    empty = rng.randrange(nst) if (not safe and nst > 2 and rng.random() < 0.2) else None
    for s in range(nst):
        if s == empty:
            continue
        for j in range(rng.randint(1, 2)):
            used = [d for d in DERIVED + ['deep', 'count'] if d in stages[s]]
            used = rng.sample(used, rng.randint(1, len(used)))
            c = {'name': '%s%d%s' % (rng.choice(['gen', 'run', 'post', 'sim', 'prep']), s, 'ab'[j]), 'stage': s,
                 'command': {'executable': 'echo', 'arguments': ' '.join('%%(%s)s' % d for d in used)},
                 'references': []}
            if safe and j == 1 and rng.random() < 0.4:
                # siblings of one stage: the first overrides a pool variable for itself, the second builds a variable of
                # its own on that pool variable and has to see the stage / global value (whichever sibling is resolved
                # first: the order of the components follows the hash seed)
                v = rng.choice(sorted(gl))
                comps[-1].setdefault('variables', {})[v] = '/c-%s%d%s' % (v, s, 'a')
                c['variables'] = {'cw': '%%(%s)s/comp' % v}
                c['command']['arguments'] += ' %(cw)s'
            elif safe and rng.random() < 0.25:     # (resolved by a later loop of instance(), which raises when it cannot)
                # a component variable on top of a stage variable or of a pool variable which a SIBLING may override
                c['variables'] = {'cw': '%%(%s)s/comp' % rng.choice([used[0], rng.choice(sorted(gl))])}
                c['command']['arguments'] += ' %(cw)s'
            elif safe and rng.random() < 0.2:
                v = rng.choice(sorted(gl))
                c['variables'] = {v: '/c-%s%d%s' % (v, s, 'ab'[j])}
            if comps and rng.random() < 0.4:
                p = rng.choice(comps)
                if p['stage'] <= s:
                    c['references'].append('stage%d.%s:ref' % (p['stage'], p['name']))
                    c['command']['arguments'] += ' ' + c['references'][-1]
            comps.append(c)
    doc = {'components': comps, 'variables': variables}
    if 'plat' in variables:
        doc['platforms'] = ['default', 'plat']
    return doc, platform, {'sensitive': sensitive}


def gen_stagevars_pkg(rng):
    doc, platform, info = gen_stagevars_doc(rng, safe=True)
    names = ['%s.yaml' % w for w in rng.sample(['user', 'site', 'extra'], rng.choice([0, 0, 0, 1]))]
    # a user file that sets a stage variable of ONE stage only (its global section would be injected in every stage)
    vfiles = {n: {'stages': {rng.randrange(len(doc['variables']['default']['stages'])): {'tag': 'f%d-tag' % i}}}
              for i, n in enumerate(names)}
    return {'kind': 'pkg', 'format': 'flowir', 'doc': doc, 'files': {}, 'inputs': {}, 'vfiles': vfiles,
            'given': list(names), 'platform': platform, 'family': 'stagevars'}


# ------------------------------------------------------------------ the value computed here (mirror of the model)
def _resolve(value, ctx, depth=0):
    """-> resolved string; KeyError = a variable is unknown"""
    if not isinstance(value, str):
        return value
    if depth > 30:
        raise RecursionError()

    def sub(m):
        v = ctx[m.group(1)]
        return repr(v) if isinstance(v, (int, bool)) else _resolve(v, ctx, depth + 1)
    return _REF.sub(sub, value)


def _keep_unknown(value, ctx):
    try:
        return _resolve(value, ctx)
    except KeyError:
        return value


def layers_of(doc, platform):
    platform = platform or 'default'
    v = doc['variables']
    gd = dict(v['default'].get('global') or {})
    gp = dict((v.get(platform) or {}).get('global') or {})
    sts = {}
    keys = set((v['default'].get('stages') or {})) | set(((v.get(platform) or {}).get('stages') or {}))
    for s in keys:
        sts[s] = (dict((v['default'].get('stages') or {}).get(s) or {}),
                  dict(((v.get(platform) or {}).get('stages') or {}).get(s) or {}))
    return platform == 'default', gd, gp, sts


def expected_stage_variables(doc, platform, overlay=None):
    """{stage: {name: value}} for the stages that have components: variables of the stage (default layer without the
    keys the platform defines at global level, platform layer, then `overlay[stage]` = what the user variables patch
    in) resolved against global + this stage"""
    is_default, gd, gp, sts = layers_of(doc, platform)
    g = dict(gp) if is_default else dict(gd, **gp)
    g = {k: _keep_unknown(x, g) for k, x in g.items()}
    out = {}
    for s in sorted(set(c['stage'] for c in doc['components'])):
        sd, sp = sts.get(s, ({}, {}))
        sv = dict(sd) if is_default else {k: x for k, x in sd.items() if k not in gp}
        sv.update(sp)
        sv.update((overlay or {}).get(s) or {})
        ctx = dict(g, **sv)
        out[s] = {k: _keep_unknown(x, ctx) for k, x in sv.items()}
    return out


def is_sensitive(doc, platform):
    """some stage references a variable that it does not define itself but another stage defines at stage level"""
    is_default, gd, gp, sts = layers_of(doc, platform)
    merged = {s: dict(sd, **sp) for s, (sd, sp) in sts.items()}
    for s, sv in merged.items():
        for x in sv.values():
            if isinstance(x, str):
                for n in _REF.findall(x):
                    if n not in sv and any(n in o for t, o in merged.items() if t != s):
                        return True
    return False


def check_pkg(ctx, case, dump, short_case):
    """pkg case of the stagevars family: the stage variables the replicated configuration serves vs the value
    computed here"""
    doc, platform = case['doc'], case.get('platform')
    ctx.count('pkg:stagevars_family:%s' % ('loaded' if 'error' not in dump else 'rejected:' + dump['error']))
    if 'error' in dump:
        return
    if is_sensitive(doc, platform):
        ctx.count('pkg:stagevars_family:references_a_variable_another_stage_defines')
    overlay = {}
    for f in case['given']:
        for s, d in (case['vfiles'][f].get('stages') or {}).items():
            overlay.setdefault(int(s), {}).update(d)
    want = expected_stage_variables(doc, platform, overlay)
    got = (dump.get('platform_variables') or {}).get('stages') or {}
    for s, sv in want.items():
        g = got.get(str(s))
        if g != sv:
            ctx.fail({'case': short_case(case), 'stage': s, 'got': g, 'want': sv},
                     'the stage variables of the replicated configuration are not the variables of the stage resolved '
                     'against global + this stage', [])
            break


# ------------------------------------------------------------------ in-process: the real instance() vs Det.StageVars
def _alist(d):
    return clist(list(d.items()), lambda kv: cpair(cstr(str(kv[0])), cjv(kv[1])))


def _without_other_stages(doc, keep):
    d = copy.deepcopy(doc)
    for plat in d['variables'].values():
        st = plat.get('stages') or {}
        for s in list(st):
            if s != keep:
                del st[s]
    for c in d['components']:
        if c['stage'] != keep:
            # the variables of a component may need the variables of its own stage (resolved by a later loop)
            c.pop('variables', None)
    return d


def _instance(F, doc, platform, prim):
    conc = F.FlowIRConcrete(copy.deepcopy(doc), platform or 'default', {})
    inst = conc.instance(platform, ignore_errors=False, fill_in_all=False, is_primitive=prim)
    v = inst['variables']['default']
    return v['global'], v['stages']


def inprocess(ctx, only=None, corpus=()):
    import experiment.model.frontends.flowir as F
    rng = ctx.rng
    n = 120 if ctx.tier == 'quick' else 1200
    docs = only if only is not None else list(corpus) + [gen_stagevars_doc(rng)[:2] for _ in range(n)]
    terms, descr = [], []
    for doc, platform in docs:
        prim = rng.random() < 0.3
        try:
            g, st = _instance(F, doc, platform, prim)
            impl = (g, st)
        except Exception as e:
            impl, err = None, type(e).__name__
        sens = is_sensitive(doc, platform)
        ctx.case(['stagevars', doc, platform, prim], sens and impl is not None and len(impl[1]) >= 2)
        ctx.count('stagevars:%s' % ('resolved' if impl else 'raises:' + err))
        ctx.count('stagevars:platform:%s' % (platform or 'default'))
        if sens:
            ctx.count('stagevars:references_a_variable_another_stage_defines')
        case = {'kind': 'stagevars', 'doc_stagevars': doc, 'platform': platform, 'is_primitive': prim}
        if impl:
            want = expected_stage_variables(doc, platform)
            if any(x != y for x, y in ((st.get(s), want[s]) for s in want)) or set(st) != set(want):
                s = [s for s in sorted(set(want) | set(st)) if st.get(s) != want.get(s)][0]
                ctx.fail(dict(case, stage=s, got=st.get(s), want=want.get(s)),
                         'instance(): the variables of a stage are not resolved against global + this stage', [])
            # what a stage resolves does not depend on what the other stages define
            for s in sorted(st):
                try:
                    _, alone = _instance(F, _without_other_stages(doc, s), platform, prim)
                except Exception as e:
                    alone = {s: 'raise ' + type(e).__name__}
                if alone.get(s) != st[s]:
                    ctx.fail(dict(case, stage=s, with_other_stages=st[s], alone=alone.get(s)),
                             'instance(): the resolved variables of a stage change when the variables of the OTHER '
                             'stages are deleted from the package', [])
                    break
        is_default, gd, gp, sts = layers_of(doc, platform)
        order = sorted(st) if impl else sorted(set(c['stage'] for c in doc['components']))
        head = cpair(cpair(cpair(cbool(is_default), cpair(_alist(gd), _alist(gp))),
                           clist(sorted(sts.items()), lambda kv: cpair(cstr(str(kv[0])),
                                                                        cpair(_alist(kv[1][0]), _alist(kv[1][1]))))),
                     clist(order, lambda s: cstr(str(s))))
        if impl:
            it = '(Some %s)' % cpair(_alist(g), clist(sorted(st.items()), lambda kv: cpair(cstr(str(kv[0])), _alist(kv[1]))))
        else:
            it = 'None'
        terms.append(cpair(head, it))
        descr.append(dict(case, impl=[impl[0], {str(k): x for k, x in impl[1].items()}] if impl else 'raises ' + err))
    bad = ctx.model_mismatches(HEADER, terms, 'check_stagevars', chunk=100, name='stagevars')
    for i in bad:
        ctx.disagree(descr[i], descr[i]['impl'], 'Det.StageVars.walk (ascending / descending visits)',
                     'C15: stage variables of FlowIRConcrete.instance() vs Det.StageVars.walk')
