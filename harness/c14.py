"""C14 - Experiment state files are updated atomically and read back faithfully.

Real code driven (in-process, real files under a scratch directory, file I/O wrapped by c14_io):
  Status.update / writeToStream / statusFromFile           (output/status.txt)
  OutputAgent.updateLogs                                   (output/output.txt, output/output.json)
  StatusMonitor.try_generate_status_details                (output/status_details.json)
  FlowIRExperimentConfiguration.store_unreplicated_flowir_to_disk / _generate_instance_files
                                                           (conf/flowir_instance.yaml, conf/manifest.yaml)
  Experiment._store_extracted_input_ids / _store_additional_input_data / _store_extracted_measured_properties
                                          (output/input-ids.json, additional_input_data.json, properties.csv)
  Experiment.experimentFromPackage / Experiment.experimentFromInstance -> Experiment.__init__   (harness/c14_create.py: the
                                          CREATION path - the first write of flowir_instance.yaml, manifest.yaml, status.txt)
For every update: the fault-free operation trace is compared with the model's protocol; then the
update is re-run from the same state once per fault (process death / I/O error at operation k, after j
characters of a write) and the trace shape + on-disk files are compared with the model, and the
property predicate (each state file holds the complete previous or the complete new version and loads)
is evaluated on the real files.  The status codec is compared on printed, truncated and hand-made files.
"""
import copy
import datetime as _dt
import json
import logging
import os
import shutil
import sys
import tempfile
import threading
import types
import weakref

import c14_io
from common import cstr, cnat, clist, cpair, copt

PROP = 'C14'
COQ_DIR = 'Fs'
ASSUMPTIONS = [
    'os.rename/os.replace within one directory is atomic (POSIX) - modelled as one step; durability (no fsync is '
    'issued by the code) is not modelled',
    'every write() is taken as reaching the disk at once (the wrapped file flushes each write); the real buffered '
    'file may merge several write() calls into one system call, which only removes crash points',
    'json.dump / yaml_dump / ConfigurationFileToJson / repr+literal_eval of the stage list are oracles: their '
    'output text is an input of the model',
    'creation stream: the shadow directory of a created instance (ExperimentShadowDirectory.temporaryShadow) is placed under '
    'the scratch directory and the clock of experiment.model.data/storage is fixed, so that every faulted re-run starts from '
    'the same pre-state and writes the same texts; the copy of the package into the instance directory is not a state file',
    'overlapping updates: the two calls run in two threads that are serialised at the intercepted file operations (a thread '
    'keeps the turn from one operation to its next request), so an interleaving is a merge of whole operations; the path-level '
    'model of the file system is exact only while the two calls use different temporary paths - the recorded opens are checked for it',
    'file-level codec model: characters are code points < 256 (larger ones in values other than error-description are '
    'checked on the real code only); the escaping of error-description is modelled and proved over all code points (Fs.Wide)',
]
HEADER = 'Require Import V.Lib.PyStr V.Fs.Model.\nOpen Scope string_scope.'
ED = 'error-description'

F_BLANKS = 'outer_blanks_in_status_value_other_than_error_description'
HEADER_W = 'Require Import V.Lib.PyStr V.Fs.Model V.Fs.Wide.\nOpen Scope string_scope.'
F_BREAK = 'line_break_in_status_value_other_than_error_description'


# ------------------------------------------------------------------ Coq printers
def s_(x):
    """Python str (code points < 256) -> Coq string, one Coq character per code point"""
    if all(32 <= ord(c) <= 126 for c in x):
        return '"' + x.replace('"', '""') + '"%string'
    t = 'EmptyString'
    run = ''
    out = []
    # mix of literal runs and explicit characters, built right to left
    parts = []
    for ch in x:
        o = ord(ch)
        assert o < 256
        if 32 <= o <= 126:
            run += ch
        else:
            if run:
                parts.append(('lit', run))
                run = ''
            parts.append(('chr', o))
    if run:
        parts.append(('lit', run))
    t = 'EmptyString'
    for kind, v in reversed(parts):
        if kind == 'chr':
            t = '(String (Ascii.ascii_of_nat %d) %s)' % (v, t)
        else:
            t = '(append "%s" %s)' % (v.replace('"', '""'), t)
    _ = out
    return t


def in_model(x):
    return all(ord(c) < 256 for c in x)


def c_dict(d):
    return clist(sorted(d.items()), lambda kv: cpair(s_(kv[0]), s_(kv[1])))


def c_op(o, shape=False):
    if o[0] == 'create':
        return '(Create %s)' % s_(o[1])
    if o[0] == 'append':
        return '(Append %s %s)' % (s_(o[1]), s_(str(len(o[2]))) if shape else s_(o[2]))
    if o[0] == 'close':
        return '(Close %s)' % s_(o[1])
    if o[0] == 'rename':
        return '(Rename %s %s)' % (s_(o[1]), s_(o[2]))
    if o[0] == 'remove':
        return '(Remove %s)' % s_(o[1])
    raise ValueError(o)


def c_fault(f):
    return '(%s %d %d)' % ('Die' if f[0] == 'die' else 'EIO', f[1], f[2])


# ------------------------------------------------------------------ trace canonicalisation
def canon_ops(ops, targets):
    """rel paths -> model names: a target keeps its base name, any other file is T1, T2, ... in order of
    first appearance"""
    names = {}

    def nm(p):
        b = os.path.basename(p)
        if b in targets:
            return b
        if p not in names:
            names[p] = 'T%d' % (len(names) + 1)
        return names[p]
    out = []
    for o in ops:
        if o[0] == 'seen':
            nm(o[1])
        elif o[0] == 'append':
            out.append(('append', nm(o[1]), o[2]))
        elif o[0] == 'rename':
            out.append(('rename', nm(o[1]), nm(o[2])))
        else:
            out.append((o[0], nm(o[1])))
    return out, names


class Rec(c14_io.Recorder):
    """Recorder that also remembers the order in which paths were first *attempted* (a failed create
    still numbers its temporary file)"""

    def __init__(self, root, fault=None):
        c14_io.Recorder.__init__(self, root, fault)
        self.attempts = []

    def fault_here(self):
        return c14_io.Recorder.fault_here(self)

    def _open(self, file, mode='r', *a, **kw):
        if not isinstance(file, int) and self.inside(file) and any(c in mode for c in 'wxa+') and not self.dead:
            self.ops.append(('seen', self.rel(file)))
        return c14_io.Recorder._open(self, file, mode, *a, **kw)


# ------------------------------------------------------------------ generators
NASTY = ['\n', '=', '\\', '"', "'", '#', '%', ' ', '\t', '\r', ':', '[', ']', '\x00', '\x07', '\x1c', '\x7f',
         '\x85', '\xa0', '\xe9', '\xff', 'n', 'x', '0', '7', 'a', 'Z', '\\n', '\\x4', '\\\\']
UNI = ['ā', ' ', '€', '\U0001f600']
PLAIN = 'abcXYZ019-_.'


def gen_text(rng, maxlen=10, uni=0.0, alphabet=None):
    n = rng.randint(0, maxlen)
    out = []
    for _ in range(n):
        r = rng.random()
        if r < uni:
            out.append(rng.choice(UNI))
        elif r < 0.6:
            out.append(rng.choice(alphabet or NASTY))
        else:
            out.append(rng.choice(PLAIN))
    return ''.join(out)


def gen_inner(rng, maxlen=8, uni=0.0):
    """a value that satisfies the guard of the codec: no line break, no outer blanks"""
    alpha = [c for c in NASTY if c not in ('\n', '\r')]
    while True:
        v = gen_text(rng, maxlen, uni, alpha)
        if v == v.strip() and '\n' not in v and '\r' not in v:
            return v


def gen_ed(rng, uni=0.0):
    """error description: any characters; often with outer white space / a final line break (a traceback)"""
    v = gen_text(rng, 12, uni)
    if rng.random() < 0.3:
        v = rng.choice(['', ' ', '\n', '\t', '\xa0', '  ']) + v + rng.choice(['\n', ' ', '\r\n', '\x85', '\n\n'])
    return v


class FakeDT(_dt.datetime):
    tick = 0

    @classmethod
    def now(cls, tz=None):
        return cls(2024, 1, 2, 3, 4, 5, 600 + cls.tick)


def status_classes(d):
    cl = []
    if any(('\n' in v or '\r' in v) for k, v in d.items() if k != ED):
        cl.append(F_BREAK)
    if any(v != v.strip() for k, v in d.items() if k != ED):
        cl.append(F_BLANKS)
    return cl


# ------------------------------------------------------------------ the generic fault loop
class Updater(object):
    """one update of one kind of state file(s): how to reset the pre-state, run it, and what to look at"""
    kind = ''
    targets = ()          # base names of the state files
    dirs = {}             # base name -> directory (relative to root)

    def path(self, root, base):
        return os.path.join(root, self.dirs[base], base)

    def modelled(self):
        return True


def snapshot(root, upd):
    return {b: c14_io.read_text(upd.path(root, b)) for b in upd.targets}


def clean_dir(root, upd, keep):
    """restore the pre-state: target files with their old text, no stray (temporary) files in the directories"""
    for b in upd.targets:
        d = os.path.join(root, upd.dirs[b])
        for fn in os.listdir(d):
            if fn not in upd.keep_files and fn not in upd.targets and os.path.isfile(os.path.join(d, fn)):
                os.remove(os.path.join(d, fn))
    for b in upd.targets:
        p = upd.path(root, b)
        if keep[b] is None:
            if os.path.exists(p):
                os.remove(p)
        else:
            with open(p, 'w', encoding='utf-8', newline='') as f:
                f.write(keep[b])


def choose_faults(rng, base_ops, tier, dense):
    """fault points over the fault-free trace: every operation boundary in both modes when the protocol
    is short (dense), otherwise the first/last boundaries and a sample; one split per write (plus the
    extremes on a sample)"""
    n = len(base_ops)
    if dense or n <= 24:
        ks = list(range(n))
    else:
        ks = sorted(set([0, 1, 2, n - 3, n - 2, n - 1] + [rng.randrange(n) for _ in range(8 if tier == 'quick' else 30)]))
    out = []
    for k in ks:
        o = base_ops[k]
        for mode in ('die', 'eio'):
            if o[0] == 'append':
                L = len(o[2])
                js = {rng.randint(0, L)}
                if rng.random() < 0.1:
                    js |= {0, L}
                for j in sorted(js):
                    out.append((mode, k, j))
            else:
                out.append((mode, k, 0))
    return out


def tag_of(content, old, new, is_target):
    if content is None:
        return 'None'
    if not is_target:
        return '(Some %s)' % s_(content)
    return '(Some %s)' % s_(content)


def explore_update(ctx, root, upd, rng, terms, descr, faults=None):
    """upd: Updater with .prepare() (restore object state), .call() (run the real updater),
    .model_term(base_ops) -> Coq term of the transactions, .loads(text_by_target) -> (ok, value) ...
    Returns the observed new texts."""
    old = snapshot(root, upd)
    upd.keep_files = set()
    for b in upd.targets:
        upd.keep_files |= set(os.listdir(os.path.join(root, upd.dirs[b])))
    upd.prepare()
    with Rec(root) as rec:
        upd.call()
    base_raw = [o for o in rec.ops]
    base, _names = canon_ops(base_raw, upd.targets)
    new = snapshot(root, upd)
    if rec.unexpected:
        ctx.disagree({'kind': upd.kind, 'update': descr}, rec.unexpected, 'text-mode truncating opens only',
                     'C14 operation alphabet: the updater opened a file in a mode the model does not have')
    ctx.count('updates_' + upd.kind)
    ctx.count('ops_in_fault_free_traces', len(base))
    # ---- predicate on the fault-free run: the new version is complete and loads with the written values
    why = upd.check_new(new)
    if why:
        ctx.fail({'kind': upd.kind, 'update': descr, 'fault': None}, why, upd.classes())
    fl = faults if faults is not None else choose_faults(rng, base, ctx.tier, upd.dense)
    mod_ok = upd.modelled() and all(in_model(o[2]) for o in base if o[0] == 'append') and \
        all(v is None or in_model(v) for v in old.values())
    fcases = []
    for flt in fl:
        clean_dir(root, upd, old)
        upd.prepare()
        try:
            with Rec(root, flt) as rec:
                upd.call()
        except Exception as error:
            # the updater's own error handling let something else escape after the injected fault (e.g. it went on
            # to read back what it had just half-written): not a verdict by itself, the files it left are judged below
            ctx.count('updater_raised_%s_after_a_fault' % type(error).__name__)
        if not rec.fault_hit:
            ctx.count('fault_beyond_trace')
            continue
        ops, names = canon_ops(rec.ops, upd.targets)
        after = snapshot(root, upd)
        temps = {}
        inv = {}
        for p, nm in names.items():
            inv[nm] = c14_io.read_text(os.path.join(root, p))
        # ---- property predicate: each state file = complete previous or complete new version, loadable
        for b in upd.targets:
            c = after[b]
            ok_old = (c == old[b])
            ok_new = (c == new[b]) or upd.is_alt_new(b, c)
            cse = {'kind': upd.kind, 'update': descr, 'fault': list(flt), 'file': b}
            if not (ok_old or ok_new):
                ctx.fail(cse, '%s after a fault (%s at operation %d) is neither the previous nor the new version: %r'
                         % (b, flt[0], flt[1], (c if c is None else c[:60])), upd.classes_atomic())
            elif c is not None:
                why = upd.loads(b, c)
                if why:
                    ctx.fail(cse, '%s left by a fault does not load: %s' % (b, why), upd.classes())
        ctx.case([upd.kind, descr, list(flt)], flt[1] >= 1 and any(v is not None for v in old.values()))
        ctx.count('fault_%s_on_%s' % (flt[0], base[flt[1]][0]))
        obs = []
        for b in upd.targets:
            c = after[b]
            obs.append((b, 'OAbs' if c is None else 'OOld' if c == old[b] else 'ONew' if c == new[b]
                        else '(OStr %s)' % (s_(c) if in_model(c) else '"?"')))
        for nm_, c in sorted(inv.items()):
            obs.append((nm_, 'OAbs' if c is None else '(OLen %d)' % len(c)))
        if mod_ok:
            fcases.append(cpair(c_fault(flt), cpair(clist(ops, lambda o: c_op(o, True)),
                                                   clist(obs, lambda pc: cpair(s_(pc[0]), pc[1])))))
        _ = temps
    # leave the directory in the state after the fault-free update
    clean_dir(root, upd, new)
    upd.prepare()
    upd.commit()
    if mod_ok:
        fs0 = clist([(b, old[b]) for b in upd.targets if old[b] is not None], lambda pc: cpair(s_(pc[0]), s_(pc[1])))
        terms.append((cpair(upd.model_term(base), cpair(fs0, cpair(clist(base, c_op), clist(fcases)))),
                      {'kind': upd.kind, 'update': descr}))
    else:
        ctx.count('update_outside_model_alphabet')
    return new


# ------------------------------------------------------------------ Status
class StatusUpd(Updater):
    kind = 'status'
    targets = ('status.txt',)
    dirs = {'status.txt': 'output'}
    keep_files = ()
    dense = True

    def __init__(self, D, st, intended):
        self.D = D
        self.st = st
        self.saved = dict(st.data)
        self.intended = intended      # the values the file must read back (strings)

    def prepare(self):
        self.st.data = dict(self.saved)

    def call(self):
        self.st.update()

    def commit(self):
        # object state after the real fault-free update (whatever the real code made of it)
        self.st.data = dict(self.after_data)

    def modelled(self):
        return all(in_model(k + v) for k, v in self.intended.items())

    def model_term(self, base):
        return '(status_update %s)' % c_dict(self.intended)

    def classes(self):
        return status_classes(self.intended)

    def classes_atomic(self):
        return []

    def is_alt_new(self, b, c):
        return False

    def read_back(self, text_path):
        st2 = self.D.Status.statusFromFile(text_path)
        return {k: '%s' % v for k, v in st2.data.items()}

    def check_new(self, new):
        self.after_data = dict(self.st.data)
        return self.loads('status.txt', new['status.txt'], want=self.intended)

    def loads(self, b, text, want=None):
        p = os.path.join(self.tmpdir, 'probe_status.txt')
        with open(p, 'w', encoding='utf-8', newline='') as f:
            f.write(text if text is not None else '')
        if text is None:
            return 'status.txt does not exist after a completed update'
        try:
            got = self.read_back(p)
        except Exception as e:
            return 'statusFromFile raised %s' % type(e).__name__
        finally:
            os.remove(p)
        if want is not None:
            for k, v in want.items():
                if got.get(k) != v:
                    return 'value of %r read back as %r, written %r' % (k, got.get(k), v)
        return None


def file_pairs(D, st):
    """the key/value pairs of a loaded Status that came from the file (not from Status.defaults)"""
    out = {}
    for k, v in st.data.items():
        if k in D.Status.defaults and v is D.Status.defaults[k]:
            continue
        out[k] = '%s' % (v,)
    return out


def run_status(ctx, rng, terms, print_terms, parse_terms, histories):
    import experiment.model.data as D
    real_dt = D.datetime
    D.datetime = types.SimpleNamespace(datetime=FakeDT, timedelta=_dt.timedelta, timezone=_dt.timezone, date=_dt.date)
    tmp = tempfile.mkdtemp(prefix='verif_c14_')
    texts = []
    try:
        for hi, hist in enumerate(histories):
            root = os.path.join(tmp, 'h%d' % hi)
            os.makedirs(os.path.join(root, 'output'))
            p = os.path.join(root, 'output', 'status.txt')
            st = D.Status(p, data=dict(hist['init']), stages=list(hist['stages']))
            intended = {k: '%s' % (v,) for k, v in st.data.items()}
            for ui, sets in enumerate(hist['updates']):
                FakeDT.tick = ui
                for k, v in sets:
                    if k == ED:
                        if v is None:
                            st.removeErrorDescription()
                            intended.pop(ED, None)
                        else:
                            st.setErrorDescription(v)
                            intended[ED] = v
                    elif k == 'exit-status':
                        st.setExitStatus(v)
                        intended[k] = v
                    elif k == 'cost':
                        st.setCost(v)
                        intended[k] = '%s' % (v,)
                    elif k == 'total-progress':
                        st.setTotalProgress(v)
                        intended[k] = '%s' % (v,)
                    elif k == 'current-stage':
                        st.setCurrentStage(v)
                        intended[k] = v
                    elif k == 'experiment-state':
                        st.setExperimentState(v)
                        intended[k] = v.lower()
                    else:
                        st.data[k] = v
                        intended[k] = v
                now = '%s' % (FakeDT.now(),)
                intended['updated'] = now
                intended['updated-on'] = now
                upd = StatusUpd(D, st, dict(intended))
                upd.tmpdir = tmp
                descr = {'history': hi, 'update': ui + 1, 'of': len(hist['updates']), 'sets': [list(x) for x in sets]}
                new = explore_update(ctx, root, upd, rng, terms, descr)
                ctx.count('history_position_%d' % (ui + 1))
                text = new['status.txt']
                if text is not None:
                    texts.append(text)
                    if in_model(text) and all(in_model(k + v) for k, v in intended.items()):
                        print_terms.append((cpair(c_dict(intended), s_(text)), descr))
                if len(ctx.samples) < 3 and ui == len(hist['updates']) - 1:
                    ctx.sample({'kind': 'status history', 'updates': len(hist['updates']), 'last_sets': [list(x) for x in sets],
                                'file': text})
            shutil.rmtree(root, ignore_errors=True)
        # ---- loader on other files: truncated (in-place crash images) and hand-made texts
        probe = os.path.join(tmp, 'loader.txt')
        import ast
        real_le = ast.literal_eval
        cand = []
        for t in texts[:: max(1, len(texts) // 40)]:
            cand.append(t)
            for _ in range(3):
                cand.append(t[:rng.randint(0, len(t))])
        for _ in range(120 if ctx.tier == 'quick' else 1200):
            cand.append(handmade_status_text(rng))
        for t in cand:
            with open(probe, 'w', encoding='utf-8', newline='') as f:
                f.write(t)
            # literal_eval of the stage list is an oracle of the model: where it fails the raw text stands in
            def lenient(x, _real=real_le):
                try:
                    return _real(x)
                except Exception:
                    ctx.count('loader_stage_list_oracle_failed')
                    return x.strip()
            ast.literal_eval = lenient
            try:
                got = file_pairs(D, D.Status.statusFromFile(probe))
                ctx.count('loader_ok')
            except Exception as e:
                got = None
                ctx.count('loader_raises_' + type(e).__name__)
            finally:
                ast.literal_eval = real_le
            ctx.case(['loader', t], True)
            if in_model(t) and (got is None or all(in_model(k + v) for k, v in got.items())):
                parse_terms.append((cpair(s_(t), copt(got, c_dict)), {'text': t}))
    finally:
        D.datetime = real_dt
        shutil.rmtree(tmp, ignore_errors=True)


def handmade_status_text(rng):
    lines = []
    keys = ['stages', 'stages', 'Stages', ' cost ', 'cost', ED, ED, 'Exit-Status', 'k', 'K ', '\xc9t\xe9', '', 'a=b']
    for _ in range(rng.randint(0, 6)):
        r = rng.random()
        k = rng.choice(keys)
        if k.strip().lower() == 'stages':
            v = rng.choice(["['stage0']", "['a', 'b']", "[]", " ['x'] ", "['a', 'b'", "nope"])
            if k != 'stages':
                v = rng.choice([v, 'zz'])
        elif k == ED:
            v = gen_text(rng, 8, 0.0, ['\\', '\\n', '\\x41', '\\x4', '\\q', '\\101', '\\7', '\\"', ' ', 'n', 'x', '4', '\\\\', '\xe9', '\\t'])
        else:
            v = gen_text(rng, 6, 0.0, [' ', '=', '\t', 'v', 'W', '\x85', '\\'])
        if r < 0.15:
            lines.append(gen_text(rng, 5, 0.0, [' ', 'q', '#']))     # a line without '='
        else:
            lines.append(k + '=' + v)
    sep = rng.choice(['\n', '\n', '\n', '\r\n', '\r'])
    t = sep.join(lines)
    if rng.random() < 0.7:
        t += sep
    return t


def gen_histories(rng, tier):
    n = 26 if tier == 'quick' else 300
    hs = []
    # corpus first: the fixed findings' witnesses
    hs.append({'init': {}, 'stages': ['stage0', 'stage1'],
               'updates': [[(ED, 'a\nb')], [('cost', 1)], [('cost', 2)]], 'corpus': 'F14a'})
    hs.append({'init': {}, 'stages': ['hello'],
               'updates': [[(ED, 'hello\n    world')], []], 'corpus': 'test_read_write_status_file'})
    # witness of F14c (repaired: the error description is read back with its outer white space)
    hs.append({'init': {}, 'stages': ['stage0'], 'updates': [[(ED, 'boom\n')], [(ED, ' \n two\t\n ')], [('cost', 1)]],
               'corpus': 'F14c'})
    # witnesses of the open findings F14d, F14f
    hs.append({'init': {}, 'stages': ['stage0'], 'updates': [[('exit-status', ' x')]], 'corpus': 'F14f'})
    hs.append({'init': {}, 'stages': ['stage0'], 'updates': [[('exit-status', 'x\ncost=99')]], 'corpus': 'F14d'})
    for i in range(n):
        nup = rng.randint(1, 6)
        uni = 0.15 if rng.random() < 0.15 else 0.0
        inside = rng.random() < 0.15         # draw into the known-finding classes
        stages = ['stage%d' % s for s in range(rng.randint(1, 3))]
        if rng.random() < 0.2:
            stages = [gen_inner(rng, 6) or 's' for _ in range(rng.randint(1, 3))]
        init = {}
        if rng.random() < 0.3:
            init['custom-key'] = gen_inner(rng, 6, uni)
        ups = []
        for u in range(nup):
            sets = []
            if rng.random() < 0.75:
                v = gen_ed(rng, uni)
                sets.append((ED, v))
            elif rng.random() < 0.2:
                sets.append((ED, None))
            if rng.random() < 0.6:
                v = gen_inner(rng, 8, uni)
                if inside and rng.random() < 0.5:
                    v = v + rng.choice(['\nstages=[]', '\rx', ' ', '\n'])
                sets.append(('exit-status', v))
            if rng.random() < 0.4:
                sets.append(('cost', rng.choice([0, 3, 2.5, 1e-7])))
            if rng.random() < 0.4:
                sets.append(('total-progress', rng.choice([0.0, 0.25, 1.0, 0.3333333333333333])))
            if rng.random() < 0.3:
                sets.append(('current-stage', rng.choice(stages)))
            if rng.random() < 0.3:
                sets.append(('experiment-state', rng.choice(['Running', 'finished', 'FAILED', 'initialising'])))
            if rng.random() < 0.25:
                sets.append(('custom-key', gen_inner(rng, 8, uni)))
            ups.append(sets)
        hs.append({'init': init, 'stages': stages, 'updates': ups})
    return hs


# ------------------------------------------------------------------ OutputAgent.updateLogs
class LogsUpd(Updater):
    kind = 'output'
    targets = ('output.txt', 'output.json')
    dirs = {'output.txt': 'output', 'output.json': 'output'}
    keep_files = ()
    dense = False

    def __init__(self, O, C, root, refs, old_json_from_old_txt):
        self.O = O
        self.C = C
        self.root = root
        self.refs = refs
        a = O.OutputAgent.__new__(O.OutputAgent)
        e = types.SimpleNamespace(instanceDirectory=types.SimpleNamespace(mtx_output=threading.RLock()))
        self._e = e
        a.weakExperiment = lambda: e
        a.log = logging.getLogger('c14')
        out = os.path.join(root, 'output')
        a.outputDir = types.SimpleNamespace(path=out)
        a.outputFile = os.path.join(out, 'output.txt')
        a.dataReferences = refs
        self.agent = a
        self.jold = old_json_from_old_txt

    def prepare(self):
        pass

    def commit(self):
        pass

    def call(self):
        self.agent.updateLogs()

    def records(self):
        recs = []
        for name, v in self.refs.items():
            s = v['status']
            if s['version'] == 0:
                continue
            recs.append([name, os.path.split(s['lastLocation'])[1], s['lastLocation'], s['description'], s['type'],
                         '%s' % s['creationTime'], '%d' % s['version'], s['production'], s['final']])
        return recs

    def model_term(self, base):
        jnew = ''
        for i, o in enumerate(base):
            if o[0] == 'rename' and o[2] == 'output.txt':
                apps = [x for x in base[i + 1:] if x[0] == 'append']
                jnew = apps[0][2] if apps else ''
        self.jnew = jnew
        return '(logs_update %s %s %s)' % (clist(self.records(), lambda r: clist(r, s_)), s_(jnew), s_(self.jold))

    def classes(self):
        return []

    def classes_atomic(self):
        return []

    def is_alt_new(self, b, c):
        # output.json regenerated from the (kept) previous output.txt after the output.txt step failed
        return b == 'output.json' and c == self.jold + ' '

    def expected_json(self):
        d = {}
        for r in self.records():
            d[r[0]] = {'filename': r[1], 'filepath': r[2], 'description': r[3], 'type': r[4], 'creationtime': r[5],
                       'version': r[6], 'production': r[7], 'final': r[8]}
        return d

    def check_new(self, new):
        if new['output.txt'] is None or new['output.json'] is None:
            return 'output.txt/output.json missing after a completed update'
        try:
            got = json.loads(new['output.json'])
        except Exception as e:
            return 'output.json does not load: %s' % type(e).__name__
        if got != self.expected_json():
            return 'output.json reads back %r, written %r' % (got, self.expected_json())
        return None

    def loads(self, b, text):
        if b == 'output.json':
            try:
                json.loads(text)
            except Exception as e:
                return 'json.load raised %s' % type(e).__name__
        else:
            import configparser
            try:
                cfg = configparser.ConfigParser()
                cfg.read_string(text)
            except Exception as e:
                return 'configparser raised %s' % type(e).__name__
        return None


def run_logs(ctx, rng, terms):
    import experiment.runtime.output as O
    import experiment.model.conf as C
    tmp = tempfile.mkdtemp(prefix='verif_c14_')
    try:
        nh = 5 if ctx.tier == 'quick' else 40
        for hi in range(nh):
            root = os.path.join(tmp, 'o%d' % hi)
            os.makedirs(os.path.join(root, 'output'))
            names = ['Out%d' % i for i in range(rng.randint(1, 3))]
            if rng.random() < 0.5:
                names[0] = rng.choice(['energies', 'my output', 'a.b-c', 'X_1'])
            refs = {}
            for nme in names:
                refs[nme] = {'status': {'version': 0, 'production': 'yes', 'final': 'no', 'lastStage': None,
                                        'lastLocation': None, 'creationTime': None,
                                        'description': rng.choice(['', 'some text', 'a = b', 'x: y ; z']),
                                        'type': rng.choice(['', 'csv', 'a b'])}, 'references': {}}
            for ui in range(rng.randint(1, 4)):
                for nme in names:
                    if rng.random() < 0.7:
                        s = refs[nme]['status']
                        s['version'] += 1
                        s['final'] = rng.choice(['yes', 'no'])
                        s['lastLocation'] = 'stages/stage%d/%s/%s' % (rng.randint(0, 3), rng.choice(['comp', 'c-1', 'a b']),
                                                                   rng.choice(['out.csv', 'energies.txt', 'dir']))
                        s['creationTime'] = rng.choice([1700000000.25, 1.5, 12345.0])
                old_txt = os.path.join(root, 'output', 'output.txt')
                jold = C.ConfigurationFileToJson(old_txt)
                upd = LogsUpd(O, C, root, copy.deepcopy(refs), jold)
                descr = {'history': hi, 'update': ui + 1, 'records': upd.records()}
                new = explore_update(ctx, root, upd, rng, terms, descr)
                if len(ctx.samples) < 5 and ui == 0 and hi == 0:
                    ctx.sample({'kind': 'output.txt/json', 'output.txt': new['output.txt']})
    finally:
        shutil.rmtree(tmp, ignore_errors=True)


# ------------------------------------------------------------------ StatusMonitor.try_generate_status_details
def gen_json(rng, depth=0):
    r = rng.random()
    if depth >= 2 or r < 0.35:
        return rng.choice([None, True, 3, 2.5, gen_text(rng, 8, 0.1), gen_text(rng, 4)])
    if r < 0.6:
        return [gen_json(rng, depth + 1) for _ in range(rng.randint(0, 3))]
    return {gen_text(rng, 5) or 'k': gen_json(rng, depth + 1) for _ in range(rng.randint(0, 3))}


class DetailsUpd(Updater):
    kind = 'status_details'
    targets = ('status_details.json',)
    dirs = {'status_details.json': 'output'}
    keep_files = ()
    dense = False

    def __init__(self, O, root, value):
        m = O.StatusMonitor.__new__(O.StatusMonitor)
        m.mtx_compute_status = threading.RLock()
        m.log = logging.getLogger('c14')
        self._e = types.SimpleNamespace(instanceDirectory=types.SimpleNamespace(outputDir=os.path.join(root, 'output')))
        e = self._e
        m.weakExperiment = lambda: e
        m._status_database = types.SimpleNamespace(getWorkflowStatus=lambda json_friendly=True: value)
        self.m = m
        self.value = value

    def prepare(self):
        pass

    def commit(self):
        pass

    def call(self):
        self.m.try_generate_status_details()

    def model_term(self, base):
        return '(details_update %s)' % clist([o[2] for o in base if o[0] == 'append'], s_)

    def classes(self):
        return []

    def classes_atomic(self):
        return []

    def is_alt_new(self, b, c):
        return False

    def check_new(self, new):
        t = new['status_details.json']
        if t is None:
            return 'status_details.json missing after a completed update'
        try:
            got = json.loads(t)
        except Exception as e:
            return 'status_details.json does not load: %s' % type(e).__name__
        if got != json.loads(json.dumps(self.value)):
            return 'status_details.json reads back %r' % (got,)
        return None

    def loads(self, b, text):
        try:
            json.loads(text)
        except Exception as e:
            return 'json.load raised %s' % type(e).__name__
        return None


def run_details(ctx, rng, terms):
    import experiment.runtime.output as O
    tmp = tempfile.mkdtemp(prefix='verif_c14_')
    try:
        nh = 6 if ctx.tier == 'quick' else 40
        # corpus: the witness of F14e (I/O error while writing, previous version present)
        root = os.path.join(tmp, 'c0')
        os.makedirs(os.path.join(root, 'output'))
        explore_update(ctx, root, DetailsUpd(O, root, {'a': [1, 2, {'b': 'x\ny'}], 'c': None}), rng, terms,
                       {'corpus': 'F14e', 'update': 1}, faults=[('eio', 5, 1)])
        explore_update(ctx, root, DetailsUpd(O, root, {'a': [1, 2, {'b': 'NEW'}], 'c': 5}), rng, terms,
                       {'corpus': 'F14e', 'update': 2}, faults=[('eio', 5, 1), ('eio', 1, 0), ('die', 5, 1)])
        for hi in range(nh):
            root = os.path.join(tmp, 'd%d' % hi)
            os.makedirs(os.path.join(root, 'output'))
            for ui in range(rng.randint(1, 3)):
                v = {'stage%d' % i: gen_json(rng) for i in range(rng.randint(1, 3))}
                explore_update(ctx, root, DetailsUpd(O, root, v), rng, terms, {'history': hi, 'update': ui + 1, 'value': v})
    finally:
        shutil.rmtree(tmp, ignore_errors=True)


# ------------------------------------------------------------------ conf/flowir_instance.yaml, conf/manifest.yaml
FLOWIR = """
variables:
  default:
    global:
      foo: "a b # c"
components:
- name: hello
  stage: 0
  command:
    executable: echo
    arguments: "%(foo)s"
- name: world
  stage: 1
  references: ["stage0.hello:ref"]
  command:
    executable: echo
    arguments: "stage0.hello:ref"
"""


class InstanceUpd(Updater):
    targets = ('flowir_instance.yaml', 'manifest.yaml')
    dirs = {'flowir_instance.yaml': 'conf', 'manifest.yaml': 'conf'}
    keep_files = ('flowir_package.yaml', 'flowir_instance.yaml', 'manifest.yaml')
    dense = False

    def __init__(self, F, conf, both):
        self.F = F
        self.conf = conf
        self.both = both
        self.kind = 'instance+manifest' if both else 'instance'
        if not both:
            self.targets = ('flowir_instance.yaml',)
        self.errors = []

    def prepare(self):
        pass

    def commit(self):
        pass

    def call(self):
        if self.both:
            self.errors = []
            self.conf._generate_instance_files(True, True, self.errors)
        else:
            try:
                self.conf.store_unreplicated_flowir_to_disk()
            except Exception as e:       # what _generate_instance_files does with it
                self.errors = [e]

    def model_term(self, base):
        names = []
        for o in base:
            if o[0] == 'create' and o[1] not in names:
                names.append(o[1])
        per = [[x[2] for x in base if x[0] == 'append' and x[1] == nm] for nm in names]
        while len(per) < 2:
            per.append([])
        if self.both:
            return '(instance_update %s %s)' % (clist(per[0], s_), clist(per[1], s_))
        return '(store_update %s)' % clist(per[0], s_)

    def classes(self):
        return []

    def classes_atomic(self):
        return []

    def is_alt_new(self, b, c):
        return False

    def expected(self):
        prim = self.conf._unreplicated.instance(ignore_errors=True, inject_missing_fields=False, fill_in_all=False,
                                                is_primitive=True)
        return self.F.FlowIR.pretty_flowir_sort(prim)

    def check_new(self, new):
        t = new['flowir_instance.yaml']
        if t is None:
            return 'flowir_instance.yaml missing after a completed update'
        try:
            got = self.F.yaml_load(t)
        except Exception as e:
            return 'flowir_instance.yaml does not load: %s' % type(e).__name__
        want = json.loads(json.dumps(self.expected()))
        if json.loads(json.dumps(got)) != want:
            return 'flowir_instance.yaml reads back a different document'
        if self.both:
            try:
                gm = self.F.yaml_load(new['manifest.yaml'])
            except Exception as e:
                return 'manifest.yaml does not load: %s' % type(e).__name__
            if gm != dict(self.conf.manifestData):
                return 'manifest.yaml reads back %r' % (gm,)
        return None

    def loads(self, b, text):
        try:
            d = self.F.yaml_load(text)
        except Exception as e:
            return 'yaml_load raised %s' % type(e).__name__
        if not isinstance(d, dict) or (b == 'flowir_instance.yaml' and 'components' not in d):
            return 'not a complete document: %r' % (d if d is None else type(d).__name__,)
        return None


def run_instance(ctx, rng, terms):
    import experiment.model.frontends.flowir as F
    sys.path.insert(0, os.path.join(os.environ.get('VERIF_REPO', '/repo'), 'tests'))
    try:
        import utils
    finally:
        sys.path.pop(0)
    tmp = tempfile.mkdtemp(prefix='verif_c14_')
    cwd = os.getcwd()
    try:
        exp = utils.experiment_from_flowir(FLOWIR, tmp, checkExecutables=False)
        root = exp.instanceDirectory.location
        conf = exp.configuration
        unrep = conf.get_unreplicated_flowir(return_copy=False)
        nu = 5 if ctx.tier == 'quick' else 30
        # corpus: witness of F14b - death right after the first operation
        explore_update(ctx, root, InstanceUpd(F, conf, False), rng, terms, {'corpus': 'F14b', 'update': 0},
                       faults=[('die', 1, 0), ('eio', 7, 2), ('die', 0, 0)])
        for ui in range(nu):
            v = gen_text(rng, 10, 0.1)
            unrep.set_global_variable('foo', v)
            both = rng.random() < 0.5
            if both:
                conf.manifestData['extra%d' % rng.randint(0, 2)] = 'data/%s:%s' % (gen_inner(rng, 5) or 'd', rng.choice(['copy', 'link']))
            explore_update(ctx, root, InstanceUpd(F, conf, both), rng, terms,
                           {'update': ui + 1, 'foo': v, 'manifest_keys': sorted(k for k in conf.manifestData if k.startswith('extra')),
                            'both': both})
    finally:
        os.chdir(cwd)
        shutil.rmtree(tmp, ignore_errors=True)


# ------------------------------------------------------------------ output/input-ids.json, additional_input_data.json, properties.csv
class IfaceUpd(Updater):
    """Experiment._store_extracted_input_ids / _store_additional_input_data / _store_extracted_measured_properties
    (the files of the experiment interface that the st4sd API / a restart read while the experiment runs)"""
    keep_files = ()
    dense = False

    def __init__(self, D, root, which, value):
        self.D = D
        self.which = which
        self.value = value
        self.base = {'ids': 'input-ids.json', 'extra': 'additional_input_data.json', 'props': 'properties.csv'}[which]
        self.kind = 'interface:' + self.base
        self.targets = (self.base,)
        self.dirs = {self.base: 'output'}
        ns = types.SimpleNamespace(instanceDirectory=types.SimpleNamespace(outputDir=os.path.join(root, 'output')))
        ns.get_input_ids = lambda return_copy=True: value
        ns.get_additional_input_data = lambda return_copy=True: value
        ns._measured_properties = value
        self.ns = ns
        self.errors = []

    def prepare(self):
        pass

    def commit(self):
        pass

    def call(self):
        f = {'ids': self.D.Experiment._store_extracted_input_ids, 'extra': self.D.Experiment._store_additional_input_data,
             'props': self.D.Experiment._store_extracted_measured_properties}[self.which]
        try:
            f(self.ns)
        except Exception as e:       # the callers report the error, the experiment goes on
            self.errors = [e]

    def model_term(self, base):
        return '(file_update %s %s)' % (s_(self.base), clist([o[2] for o in base if o[0] == 'append'], s_))

    def classes(self):
        return []

    def classes_atomic(self):
        return []

    def is_alt_new(self, b, c):
        return False

    def parse(self, text):
        if self.which == 'props':
            import io
            import pandas
            return pandas.read_csv(io.StringIO(text), sep=None, engine='python').to_dict(orient='list')
        return json.loads(text)

    def check_new(self, new):
        t = new[self.base]
        if t is None:
            return '%s missing after a completed update' % self.base
        try:
            got = self.parse(t)
        except Exception as e:
            return '%s does not load: %s' % (self.base, type(e).__name__)
        want = self.value.to_dict(orient='list') if self.which == 'props' else json.loads(json.dumps(self.value))
        if got != want:
            return '%s reads back %r, written %r' % (self.base, got, want)
        return None

    def loads(self, b, text):
        try:
            self.parse(text)
        except Exception as e:
            return 'loading raised %s' % type(e).__name__
        return None


def run_iface(ctx, rng, terms):
    import experiment.model.data as D
    import pandas
    tmp = tempfile.mkdtemp(prefix='verif_c14_')
    try:
        # corpus: witness of F14g - death right after the truncating open / I/O error in the middle of the document
        root = os.path.join(tmp, 'c0')
        os.makedirs(os.path.join(root, 'output'))
        for val in (['mol-0', 'mol-1'], ['mol-0', 'mol-1', 'mol-2']):
            explore_update(ctx, root, IfaceUpd(D, root, 'ids', val), rng, terms, {'corpus': 'F14g', 'value': val},
                           faults=[('die', 1, 0), ('eio', 3, 1), ('die', 0, 0), ('eio', 0, 0)])
        nh = 3 if ctx.tier == 'quick' else 20
        for hi in range(nh):
            root = os.path.join(tmp, 'i%d' % hi)
            os.makedirs(os.path.join(root, 'output'))
            for ui in range(rng.randint(1, 3)):
                ids = [gen_text(rng, 6, 0.1) or 'id%d' % i for i in range(rng.randint(0, 4))]
                which = rng.choice(['ids', 'extra', 'props'])
                if which == 'ids':
                    v = ids
                    dv = v
                elif which == 'extra':
                    v = {i: ['/tmp/data/%s' % (gen_inner(rng, 5) or 'f') for _ in range(rng.randint(0, 2))] for i in ids}
                    dv = v
                else:
                    ids = sorted(set('id-%d' % rng.randint(0, 9) for _ in range(rng.randint(1, 4))))
                    v = pandas.DataFrame({'input-id': ids, 'band-gap': [rng.choice([1.5, 2.25, -0.5]) for _ in ids],
                                          'label': [rng.choice(['a b', 'x', 'q-r']) for _ in ids]})
                    dv = v.to_dict(orient='list')
                explore_update(ctx, root, IfaceUpd(D, root, which, v), rng, terms,
                               {'history': hi, 'update': ui + 1, 'file': which, 'value': dv})
    finally:
        shutil.rmtree(tmp, ignore_errors=True)


# ------------------------------------------------------------------ escaping over all code points
WIDE_CP = [0, 9, 10, 13, 31, 32, 39, 61, 92, 126, 127, 128, 133, 160, 233, 255, 256, 257, 0x3b1, 0x7ff, 0x800, 0x2028, 0x20ac,
           0x3000, 0xd7ff, 0xd800, 0xdfff, 0xe000, 0xfffd, 0xffff, 0x10000, 0x1f600, 0xfffff, 0x100000, 0x10ffff]
WIDE_PIECES = ['\\', '\\n', '\\t', '\\x41', '\\xe9', '\\xZ1', '\\x4', '\\u0100', '\\u20AC', '\\ud800', '\\u12', '\\u12g4',
               '\\U0001f600', '\\U0010FFFF', '\\U00110000', '\\U0001f60', '\\UFFFFFFFF', '\\101', '\\777', '\\400', '\\7',
               '\\18', '\\8', '\\q', '\\"', "\\'", '\\a', '\\\n', '\\\\', ' ', 'n', 'u', 'U', 'x', '0', '1', 'f',
               '\xe9', '\u0100', '\u20ac', '\U0001f600', '\x7f', '\x80', '\n', '=']


def cw(cps):
    return clist(list(cps), lambda n: '%d%%N' % n)


def run_wide(ctx, rng, esc_terms, unesc_terms):
    """the two expressions of the status codec on strings of any code points (real str methods = the real code's
    writer/loader expressions), against Fs.Wide; predicate: the loader's expression inverts the writer's"""
    def w_esc(x):
        return x.encode('unicode_escape').decode('utf-8')

    def w_unesc(x):
        return x.encode('utf-8').decode('unicode_escape')
    import warnings
    n = 150 if ctx.tier == 'quick' else 1500
    for i in range(n):
        L = rng.randint(0, 8)
        cps = [rng.choice(WIDE_CP) if rng.random() < 0.7 else rng.randrange(0x110000) for _ in range(L)]
        v = ''.join(chr(c) for c in cps)
        e = w_esc(v)
        back = None
        try:
            with warnings.catch_warnings():
                warnings.simplefilter('ignore')
                back = w_unesc(e)
        except Exception as ex:
            back = 'raised %s' % type(ex).__name__
        ctx.case(['wide-escape', cps], any(c > 255 for c in cps))
        ctx.count('wide_escape_cases')
        if back != v or not all(32 <= ord(ch) <= 126 for ch in e):
            ctx.fail({'kind': 'wide-escape', 'code_points': cps}, 'error description %r is escaped as %r and un-escaped as %r'
                     % (v, e, back), [])
        esc_terms.append((cpair(cw(cps), s_(e)), {'kind': 'wide-escape', 'code_points': cps}))
    for i in range(n):
        t = ''.join(rng.choice(WIDE_PIECES) for _ in range(rng.randint(0, 5)))
        if '\\N' in t:
            continue
        try:
            with warnings.catch_warnings():
                warnings.simplefilter('ignore')
                got = [ord(c) for c in w_unesc(t)]
            ctx.count('wide_unescape_ok')
        except UnicodeDecodeError:
            got = None
            ctx.count('wide_unescape_raises')
        ctx.case(['wide-unescape', t], True)
        unesc_terms.append((cpair(cw([ord(c) for c in t]), copt(got, cw)), {'kind': 'wide-unescape', 'text': t}))


# ------------------------------------------------------------------ entry points
def _finish_terms(ctx, terms, checker, name, chunk, header=None):
    bad = ctx.model_mismatches(header or HEADER, [t for t, _ in terms], checker, chunk=chunk, name=checker)
    for k, i in enumerate(bad):
        ctx.disagree(terms[i][1], 'observed trace/files/loader result (see term)', 'model Fs.Model.%s rejects it' % checker, name)


def run(ctx):
    ctx.rule = ('one case = (state-file updater, update, fault): updater in {Status.update, updateLogs, '
                'try_generate_status_details, store_unreplicated_flowir_to_disk, _generate_instance_files, Experiment._store_* of the '
                'interface files}, update = '
                'position 1..6 in a history with values from a set containing line breaks = \\ quotes # % blanks NUL '
                'latin-1 and wider code points, fault = process death or I/O error at operation k after j characters; '
                'plus creation cases (package, entry point in {experimentFromPackage, experimentFromInstance with a subset of '
                'the state files removed}, fault) - the first write of the state files; '
                'plus overlap cases (two real Status.update calls - two Status objects or one - or two Experiment._store_* calls on the same '
                'file, a schedule from {B inside A after operation i, A inside B, alternation, random merge, sequential}, a fault at '
                'every operation of the interleaving); '
                'plus loader cases (printed, truncated, hand-made status files). non-trivial = a previous version of the '
                'file exists and the fault is after the first operation; distinct by (updater, update, fault)')
    rng = ctx.rng
    terms, print_terms, parse_terms = [], [], []
    import time
    t0 = time.time()
    run_status(ctx, rng, terms, print_terms, parse_terms, gen_histories(rng, ctx.tier))
    t1 = time.time()
    import c14_overlap
    overlap_terms = []
    c14_overlap.run_status_overlap(ctx, rng, overlap_terms)
    c14_overlap.run_iface_overlap(ctx, rng, overlap_terms)
    t1b = time.time()
    run_logs(ctx, rng, terms)
    run_details(ctx, rng, terms)
    t2 = time.time()
    run_instance(ctx, rng, terms)
    run_iface(ctx, rng, terms)
    t3 = time.time()
    import c14_create
    create_terms = []
    c14_create.run_create(ctx, rng, create_terms)
    t4 = time.time()
    ctx.extra['drive_s'] = {'status': round(t1 - t0, 1), 'overlap': round(t1b - t1, 1), 'logs+details': round(t2 - t1b, 1), 'instance': round(t3 - t2, 1),
                            'creation': round(t4 - t3, 1)}
    _finish_terms(ctx, terms, 'check_update', 'C14 protocol: operation trace and files after every fault vs Fs.Model.exec/run', 12)
    _finish_terms(ctx, overlap_terms, 'check_overlap',
                  'C14 overlapping updates: interleaved trace, state file after every operation and files after every fault vs '
                  'Fs.Model.interleave/exec/run', 3)
    ctx.extra['overlaps_modelled'] = len(overlap_terms)
    _finish_terms(ctx, create_terms, 'check_create',
                  'C14 creation path: trace, removal of the instance and files after every fault vs Fs.Model.exec2', 3)
    _finish_terms(ctx, print_terms, 'check_print', 'C14 codec: Status.writeToStream vs Fs.Model.status_print', 60)
    _finish_terms(ctx, parse_terms, 'check_parse', 'C14 codec: Status.statusFromFile vs Fs.Model.status_parse', 60)
    esc_terms, unesc_terms = [], []
    run_wide(ctx, rng, esc_terms, unesc_terms)
    _finish_terms(ctx, esc_terms, 'check_wescape', "C14 codec, all code points: str.encode('unicode_escape') vs Fs.Wide.escape_w",
                  400, HEADER_W)
    _finish_terms(ctx, unesc_terms, 'check_wunescape',
                  "C14 codec, all code points: encode('utf-8').decode('unicode_escape') vs Fs.Wide.unescape_text", 400, HEADER_W)
    ctx.extra['updates_modelled'] = len(terms)
    ctx.extra['creations_modelled'] = len(create_terms)


def replay(ctx, path):
    d = json.load(open(path))
    c = d.get('case') or d.get('first', {}).get('case')
    print('replay of %s: re-running the whole C14 correspondence with the same seed (cases are histories on shared '
          'objects); looking for %r' % (path, c))
    run(ctx)
    hit = 0
    for f in ctx.failures:
        if c is None or f['case'] == c or (isinstance(c, dict) and f['case'].get('update') == c.get('update')
                                           and f['case'].get('kind') == c.get('kind')):
            print('REPRODUCED: %s on %s' % (f['what'], f['case']))
            hit += 1
            if hit >= 5:
                break
    for f in ctx.disagreements[:5]:
        print('DISAGREEMENT: %s' % (f,))
    return 1 if (hit or ctx.disagreements) else 0
