"""C12 — the CONFIGURATION side of "never after a killed or cancelled task".

Controller._restartComponent / Engine.restart / RepeatingEngine.restart only test `exitReason in restartHookOn`;
that Killed / Cancelled are never listed is enforced by the FlowIR schema when the configuration is loaded.  This
stream drives the REAL validation - FlowIRConcrete.validate() on whole documents (FlowIR.validate on the raw document
+ FlowIR.validate_component on the layered, variable-resolved component of the active platform) and
validate_object_schema with FlowIR.type_flowir_component(flavor) for the three schema flavours - on generated
restartHookOn / shutdownOn lists: every exit reason of experiment.model.codes.exitReasons (legal and forbidden),
other spellings, non-strings, variable references; written in the component, a platform override, the global / stage
blueprints of the default / another platform, or behind a component / global / platform variable; for the default
and the other platform as the active one.  The verdict is compared with Restart.Config.schema_accepts inside Coq, and
for every ACCEPTED document the effective lists the real code computed become the restartHookOn / shutdownOn of
restart-chain cases (c12.explore) whose hook answers "restart possible" after each listed reason and after Killed /
Cancelled."""
import copy
import json

from common import clist, cbool, cpair, cstr

HEADER = 'Require Import V.Restart.Model V.Restart.Config.\nOpen Scope Z_scope.'

REASONS = ['Success', 'KnownIssue', 'SystemIssue', 'SubmissionFailed', 'UnknownIssue', 'Killed', 'Cancelled',
           'ResourceExhausted']
FORBIDDEN = ('Killed', 'Cancelled')
# other spellings / neighbours of the names (none of them is an exit reason: all must be rejected)
OTHER_NAMES = ['Canceled', 'cancelled', 'killed', 'KILLED', 'CANCELLED', 'Cancelled ', ' Killed', 'Cancel', 'Kill',
               'Canceled ', 'success', 'resourceExhausted', 'Resource Exhausted', 'SIGKILL', 'SIGTERM', 'Failed', '',
               'KnownIssues', 'Timeout']
JUNK = [None, 3, True, 2.5]
PLACES = ['comp', 'override', 'bp_default_global', 'bp_plat_global', 'bp_default_stage', 'bp_plat_stage']
VAR_PLACES = ['var_comp', 'var_global', 'var_plat']
PLATFORMS = ['default', 'plat']
COMP_ID = (0, 'target')


# ------------------------------------------------------------------ documents
# an entry: ('lit', s) | ('junk', v) | ('var', where, value): the text %(name)s with the variable defined at `where`
def build_document(lists, shutdown=None):
    """lists: [(place, [entry, ...])] - at most one list per place.  Returns the FlowIR document (a dict)."""
    comp = {'name': 'target', 'stage': 0, 'command': {'executable': 'ls'}}
    doc = {'components': [comp], 'platforms': list(PLATFORMS)}
    nvar = [0]

    def text(entries):
        out = []
        for e in entries:
            if e[0] == 'var':
                name = 'v%d' % nvar[0]
                nvar[0] += 1
                if e[1] == 'var_comp':
                    comp.setdefault('variables', {})[name] = e[2]
                elif e[1] == 'var_global':
                    doc.setdefault('variables', {}).setdefault('default', {}).setdefault('global', {})[name] = e[2]
                else:
                    # defined differently for the two platforms: the other platform's value is e[2], default's is legal
                    doc.setdefault('variables', {}).setdefault('default', {}).setdefault('global', {})[name] = 'KnownIssue'
                    doc['variables'].setdefault('plat', {}).setdefault('global', {})[name] = e[2]
                out.append('%(' + name + ')s')
            else:
                out.append(e[1])
        return out
    for place, entries in lists:
        wa = {'restartHookOn': text(entries)}
        if place == 'comp':
            comp.setdefault('workflowAttributes', {}).update(wa)
        elif place == 'override':
            comp.setdefault('override', {}).setdefault('plat', {})['workflowAttributes'] = wa
        else:
            _, plat, scope = place.split('_')
            node = doc.setdefault('blueprint', {}).setdefault(plat, {})
            if scope == 'global':
                node.setdefault('global', {})['workflowAttributes'] = wa
            else:
                node.setdefault('stages', {}).setdefault(0, {})['workflowAttributes'] = wa
    if shutdown is not None:
        comp.setdefault('workflowAttributes', {})['shutdownOn'] = list(shutdown)
    return doc


def raw_entry(e):
    if e[0] == 'lit':
        return '(RLit %s)' % cstr(e[1])
    return 'RVar' if e[0] == 'var' else 'RJunk'


def validate_document(doc, platform):
    """the real loading-time validation.  Returns (accepted, effective restartHookOn, effective shutdownOn, errors)"""
    import experiment.model.frontends.flowir as F
    try:
        concrete = F.FlowIRConcrete(copy.deepcopy(doc), platform, {})
        errors = concrete.validate()
    except Exception as error:
        return False, None, None, ['raised %s' % type(error).__name__]
    eff = sd = None
    try:
        wa = concrete.get_component_configuration(COMP_ID, raw=False, is_primitive=True, include_default=True)['workflowAttributes']
        eff, sd = wa.get('restartHookOn'), wa.get('shutdownOn')
    except Exception as error:
        if not errors:
            errors = ['configuration raised %s' % type(error).__name__]
    return (not errors), eff, sd, [str(e)[:160] for e in errors]


def validate_schema(flavor, where, entries):
    """the schema alone: validate_object_schema(<object holding the list>, FlowIR.type_flowir_component(flavor)).
    Only errors naming restartHookOn count (a bare object lacks the keys a full component requires)."""
    import experiment.model.frontends.flowir as F
    lst = [e[1] for e in entries]
    obj = {'workflowAttributes': {'restartHookOn': lst}}
    if where == 'override':
        obj = {'override': {'plat': obj}}
    errors = F.validate_object_schema(obj, F.FlowIR.type_flowir_component(flavor), 'stage0.target')
    return not [e for e in errors if 'restartHookOn' in str(e)]


# ------------------------------------------------------------------ generation
def gen_entry(rng, legal_bias):
    x = rng.random()
    if x < legal_bias:
        name = rng.choice([r for r in REASONS if r not in FORBIDDEN])
    elif x < legal_bias + 0.5 * (1 - legal_bias):
        name = rng.choice(FORBIDDEN)
    else:
        name = rng.choice(OTHER_NAMES + list(FORBIDDEN))
    y = rng.random()
    if y < 0.2:
        return ('var', rng.choice(VAR_PLACES), name)
    if y < 0.23:
        return ('junk', rng.choice(JUNK))
    return ('lit', name)


def documents(ctx):
    """[(lists, shutdown, active platform)]"""
    rng = ctx.rng
    docs = []
    # boundary corpus: the two forbidden names and one legal name, alone, in the component
    for name in ('Killed', 'Cancelled', 'ResourceExhausted'):
        docs.append(([('comp', [('lit', name)])], None, 'default'))
    # systematic family: every name alone x every place (literal / behind a variable) x both active platforms
    for platform in PLATFORMS:
        for name in REASONS + OTHER_NAMES:
            for place in PLACES:
                docs.append(([(place, [('lit', name)])], None, platform))
            for vp in VAR_PLACES:
                docs.append(([('comp', [('var', vp, name)])], None, platform))
        # a legal list shadowed by / shadowing a forbidden one, non-strings, the empty list
        for bad in FORBIDDEN:
            docs.append(([('comp', [('lit', 'KnownIssue')]), ('override', [('lit', bad)])], None, platform))
            docs.append(([('comp', [('lit', bad)]), ('override', [('lit', 'KnownIssue')])], None, platform))
            docs.append(([('bp_plat_global', [('lit', bad)]), ('comp', [('lit', 'SystemIssue')])], None, platform))
            docs.append(([('comp', [('lit', 'ResourceExhausted'), ('lit', 'KnownIssue'), ('lit', bad)])], None, platform))
        for j in JUNK:
            docs.append(([('comp', [('junk', j)])], None, platform))
        docs.append(([('comp', [])], list(REASONS), platform))
        docs.append(([], ['Killed', 'Cancelled', 'bogus'], platform))
    # random documents: 1-3 lists of 0-3 entries, mostly legal so that most documents are accepted
    for _ in range(250 if ctx.tier == 'quick' else 3000):
        places = rng.sample(PLACES, rng.choice([1, 1, 1, 2, 2, 3]))
        bias = rng.choice([1.0, 1.0, 0.9, 0.7])
        lists = [(p, [gen_entry(rng, bias) for _ in range(rng.choice([0, 1, 1, 2, 2, 3]))]) for p in places]
        shutdown = None
        if rng.random() < 0.5:
            shutdown = [rng.choice(REASONS + ['bogus', 'Canceled']) for _ in range(rng.choice([0, 1, 2, 3]))]
        docs.append((lists, shutdown, rng.choice(PLATFORMS)))
    return docs


def schema_cases(ctx):
    rng = ctx.rng
    out = []
    for flavor in ('full', 'blueprint', 'DoWhile'):
        wheres = ('direct', 'override') if flavor != 'blueprint' else ('direct',)
        for where in wheres:
            for name in REASONS + OTHER_NAMES:
                out.append((flavor, where, [('lit', name)]))
            out.append((flavor, where, [('lit', '%(x)s')]))
            for _ in range(6 if ctx.tier == 'quick' else 60):
                out.append((flavor, where, [e for e in (gen_entry(rng, 0.7) for _ in range(rng.randint(0, 4))) if e[0] != 'var']))
    return out


# ------------------------------------------------------------------ the stream
def chain_cases_for(rng, doc_case, eff, sd, gen_cfg, gen_hist):
    """restart-chain cases for a component whose restartHookOn / shutdownOn are the lists the real code accepted and
    computed: the hook answers 'restart possible' after every listed reason and after Killed / Cancelled"""
    hook_on = [x for x in (eff or []) if x in REASONS]
    shutdown_on = [x for x in (sd or []) if x in REASONS]
    base = {'max_restarts': 'absent', 'hook_file': 'HFNone', 'hook_loadable': True, 'hook_on': hook_on,
            'is_sim': False, 'sim_restart': False, 'is_rep': False, 'shutdown_on': shutdown_on}
    out = []
    seen = []
    for r in hook_on + list(FORBIDDEN):
        if r in seen:
            continue
        seen.append(r)
        out.append((base, [(r, 'HPossible', True, True)]))
        out.append((dict(base, hook_file='HFNamed'), [(r, 'HTrue', False, True), (r, 'HNotAvailable', True, True)]))
    out.append((dict(base, is_sim=True, sim_restart=True), [(r, 'HPossible', True, True) for r in seen[:4]]))
    out.append((dict(base, is_rep=True), [('ResourceExhausted', 'HPossible', False, True), ('Cancelled', 'HPossible', False, True)]))
    cfg = gen_cfg(rng)
    cfg.update(hook_on=hook_on, shutdown_on=shutdown_on)
    if rng.random() < 0.8:
        cfg.update(hook_loadable=True, hook_file=rng.choice(['HFNone', 'HFNamed']))
    hist = gen_hist(rng, cfg, rng.randint(1, 6))
    k = rng.randrange(len(hist) + 1)
    hist.insert(k, (rng.choice(FORBIDDEN), rng.choice(['HPossible', 'HTrue', 'HNotAvailable']), rng.random() < 0.5, True))
    out.append((cfg, hist))
    return [(c, h, doc_case) for (c, h) in out]


def explore_config(ctx, docs, schemas, gen_cfg, gen_hist):
    """returns the restart-chain cases [(cfg, hist, document case)] of the accepted documents"""
    terms = []
    chains = []
    keys = set()
    for lists, shutdown, platform in docs:
        doc = build_document(lists, shutdown)
        accepted, eff, sd, errors = validate_document(doc, platform)
        case = {'config_document': True, 'lists': lists, 'shutdown': shutdown, 'platform': platform}
        ctx.case(['config', lists, shutdown, platform], bool(accepted and eff))
        ctx.count('config_doc_' + ('accepted' if accepted else 'rejected'))
        # judged as written: the lists of platform overrides and blueprints (whatever the active platform); the list in
        # the component's own body is judged only through the effective list (it is that list, or an override of the
        # active platform shadows it and it plays no role)
        raws = clist([clist([raw_entry(e) for e in entries]) for (place, entries) in lists if place != 'comp'])
        eff_s = [x if isinstance(x, str) else repr(x) for x in (eff or [])]
        if accepted and (not isinstance(eff, list) or not isinstance(sd, list)):
            ctx.disagree(case, {'accepted': True, 'restartHookOn': eff, 'shutdownOn': sd}, None,
                         'C12 configuration: accepted document without effective restartHookOn / shutdownOn lists')
            continue
        if not accepted and not [e for e in errors if 'restartHookOn' in e]:
            # the generated documents are valid but for restartHookOn: any other complaint is the harness's problem
            ctx.disagree(case, {'accepted': False, 'errors': errors}, None,
                         'C12 configuration: document rejected for a reason other than restartHookOn')
            continue
        terms.append((cpair(cpair(raws, clist([cstr(x) for x in eff_s])), cbool(accepted)), case,
                      {'accepted': accepted, 'restartHookOn': eff, 'shutdownOn': sd, 'errors': errors[:3]}))
        if accepted:
            for c, h, d in chain_cases_for(ctx.rng, case, eff, sd, gen_cfg, gen_hist):
                key = json.dumps([c, h], sort_keys=True)
                if key not in keys:
                    keys.add(key)
                    chains.append((c, h, d))
    for flavor, where, entries in schemas:
        accepted = validate_schema(flavor, where, entries)
        case = {'config_schema': True, 'flavor': flavor, 'where': where, 'entries': entries}
        ctx.case(['config-schema', flavor, where, entries], accepted and bool(entries))
        ctx.count('config_schema_' + ('accepted' if accepted else 'rejected'))
        # a literal holding a variable reference is what the model calls RVar
        raws = clist([clist(['RVar' if (e[0] == 'lit' and '%(' in e[1]) else raw_entry(e) for e in entries])])
        terms.append((cpair(cpair(raws, clist([])), cbool(accepted)), case, {'accepted': accepted}))
    bad = ctx.model_mismatches(HEADER, [t[0] for t in terms], 'check_config', chunk=400, name='config')
    for i in bad:
        _, case, impl = terms[i]
        ctx.disagree(case, impl, {'schema_accepts': not impl['accepted']},
                     'C12 configuration: FlowIR validation of workflowAttributes.restartHookOn vs Restart.Config.schema_accepts')
    ctx.count('config_chain_cases', len(chains))
    return chains
