"""C02 — Stage outcome does not depend on the ordering of notifications.
Implementation driven: the real Controller (sched_driver.py); for every (workflow, outcome table) many
interleavings are run to completion and their final states / verdicts compared with each other and with the
rule-given specification (Python mirror of Stage.Spec.spec)."""
import json
import random

import sched_common as SC

PROP = 'C02'
COQ_DIR = 'Stage'
ASSUMPTIONS = [
    'same fakes as C01 (sched_driver.py); fairness: every enabled notification/exit is eventually chosen by the random chooser',
    'postMortemCheck atomic; timers (_event_scheduler.wait(5), rx pools) replaced by harness-controlled steps',
]
FINALS = ('finished', 'failed', 'component_shutdown')


def decide(d, rs, rb, r):
    def bud():
        if d['max_r'] < rs + 1:
            return None
        return (rs, rb + 1) if r == 'SubmissionFailed' else (rs + 1, rb)
    if r == 'SubmissionFailed':
        return bud() if rb < 5 else None
    if r in d['restart_on']:
        return bud()
    return None


def final_of(d, r):
    return 'finished' if r == 'Success' else ('component_shutdown' if r in d['shutdown_on'] else 'failed')


def walk(d, oc):
    n, rs, rb = 0, 0, 0
    while True:
        r = oc[min(n, len(oc) - 1)]
        nx = decide(d, rs, rb, r)
        if nx is None:
            return final_of(d, r)
        rs, rb = nx
        n += 1


def rule(W, sigma, c):
    d = W[c]
    ps = d['preds']
    if any(sigma[p] == 'failed' for p in ps):
        return True
    if d['is_aggregate']:
        rep = [p for p in ps if W[p]['is_replica']]
        non = [p for p in ps if not W[p]['is_replica']]
        if any(sigma[p] == 'component_shutdown' for p in non):
            return True
        return bool(rep) and all(sigma[p] == 'component_shutdown' for p in rep)
    return any(sigma[p] == 'component_shutdown' for p in ps)


def spec(W, out):
    sigma = {}
    for c, d in enumerate(W):
        sigma[c] = 'component_shutdown' if rule(W, sigma, c) else walk(d, out[c])
    return sigma


def f2_class(W, sigma):
    """a repeating component has a same-stage producer that does not simply finish"""
    for c, d in enumerate(W):
        if d['is_repeat']:
            for p in d['preds']:
                if W[p]['stage'] == d['stage'] and sigma[p] != 'finished':
                    return True
    return False


def coq_final(f):
    return {'finished': 'Finished', 'failed': 'Failed', 'component_shutdown': 'Shutdown'}[f]


def run_family(ctx, W, out, nsched, terms):
    sigma = spec(W, out)
    benign = all(v != 'failed' for v in sigma.values())
    cls = ['observer_outcome_depends_on_when_its_subject_stops'] if f2_class(W, sigma) else []
    results = []
    base = {'W': W, 'outcome': {str(k): v for k, v in out.items()}}
    for j in range(nsched):
        r2 = random.Random(ctx.rng.random())
        bias = r2.random()

        def ch(en, step, r2=r2, bias=bias):
            ticks = [k for k, e in enumerate(en) if e[0] == 'Tick']
            others = [k for k, e in enumerate(en) if e[0] != 'Tick']
            if ticks and others:
                return r2.choice(ticks) if r2.random() < bias * 0.8 else r2.choice(others)
            return r2.randrange(len(en))
        trace, errors, complete, drv = SC.explore(W, out, ch, maxlen=1500, slow_pm=(j % 2 == 1), with_cdb=(j % 4 == 2),
                                                  lockfin=(j % 4 == 3))
        evs = [t[0] for t in trace]
        case = dict(base, schedule=evs)
        ctx.case([W, sorted(out.items()), evs], len(W) >= 2 and len(evs) > 3 * len(W))
        ctx.count('events', len(trace))
        if errors:
            ctx.disagree(case, errors[0][-1500:], None, 'C02 driver: Controller.run raised an unexpected exception')
            continue
        if drv.atomicity:
            import c01
            c01.report_atomicity(ctx, case, drv, who='C02')
        if not complete:
            ctx.fail(case, 'stage loop did not terminate within 1500 events under a fair random schedule', [])
            continue
        # one final state, never changing
        first_final = {}
        for (ev, pre, post) in trace:
            for c in range(len(W)):
                st = post['comps'][c][0]
                if st in FINALS:
                    if c in first_final and first_final[c] != st:
                        ctx.fail(dict(case, component=c), 'a component changed from one final state (%s) to another (%s)' % (first_final[c], st), [])
                    first_final.setdefault(c, st)
        for (ev, what) in SC.stage_state_violations(W, trace)[:1]:
            ctx.fail(dict(case, at=ev), what, [])
        last = trace[-1][2]
        stages_run = last['cur'] + 1
        # how run() ended for each stage (a stage may also end inside the Start event: nothing left to run)
        verdicts = [t[2]['verdict'] for t in trace if t[0][0] in ('Tick', 'Start') and not t[2]['running']]
        finals = [last['comps'][c][0] for c in range(len(W))]
        for c, d in enumerate(W):
            if d['stage'] < stages_run and finals[c] not in FINALS:
                ctx.fail(dict(case, component=c), 'stage loop ended with a component of the stage not in a final state', [])
        failed = [c for c in range(len(W)) if finals[c] == 'failed']
        if failed:
            fst = set(W[c]['stage'] for c in failed if W[c]['stage'] < stages_run)
            if fst and 'UnexpectedJobFailureError' not in verdicts:
                ctx.fail(dict(case, failed=failed), 'a component failed but its stage was not reported as failed', [])
            for c, d in enumerate(W):
                if d['stage'] < stages_run and finals[c] in FINALS and finals[c] not in (sigma[c], 'component_shutdown', 'failed'):
                    ctx.fail(dict(case, component=c), 'after a failure a component ended neither in its rule-given state nor shut down', cls)
        results.append((tuple(finals), tuple(verdicts), evs))
        if benign:
            if failed:
                ctx.fail(dict(case, failed=failed), 'no task exits unrecoverably by the rules, yet a component failed', cls)
            for c in range(len(W)):
                if finals[c] in FINALS and finals[c] != sigma[c]:
                    ctx.fail(dict(case, component=c, got=finals[c], rule_given=sigma[c]),
                             'final state differs from the rule-given state although no task exits unrecoverably', cls)
        terms.append((SC.coq_case(W, out, trace), case))
    distinct = set((r[0], r[1]) for r in results)
    ctx.count('families')
    if cls:
        ctx.count('families_in_F2_class')
    ctx.count('families_benign' if benign else 'families_with_failure')
    if len(distinct) > 1:
        ctx.count('families_order_dependent')
        if benign:
            a, b = sorted(distinct)[:2]
            ctx.fail(dict(base, finals_a=a[0], finals_b=b[0]), 'two orderings of the same workflow and outcomes end in different final states', cls)
    if len(W) >= 3:
        ctx.sample({'workflow': W, 'outcome': out, 'rule_given': [sigma[c] for c in range(len(W))],
                    'distinct_outcomes_over_schedules': len(distinct), 'schedules': len(results)}, limit=3)
    return sigma


def restart_family(ctx, W, out, start_at, nsched):
    """the experiment is restarted from stage start_at > 0 (Controller.initialise marks the components of the skipped
    stages finished); outside the Coq model: judged by the predicates only — every component keeps the first final
    state it shows, skipped components are never launched, the loop terminates"""
    base = {'W': W, 'outcome': {str(k): v for k, v in out.items()}, 'start_at': start_at}
    for j in range(nsched):
        r2 = random.Random(ctx.rng.random())

        def ch(en, step, r2=r2):
            return r2.randrange(len(en))
        trace, errors, complete, drv = SC.explore(W, out, ch, maxlen=1500, start_at=start_at)
        evs = [t[0] for t in trace]
        case = dict(base, schedule=evs)
        ctx.case([W, sorted(out.items()), evs, start_at], len(evs) > 2 * len(W))
        ctx.count('restart_from_stage_schedules')
        if errors:
            ctx.disagree(case, errors[0][-1500:], None, 'C02 driver (restart from a later stage): Controller.run raised an unexpected exception')
            continue
        if not complete:
            ctx.fail(case, 'stage loop did not terminate within 1500 events (restart from stage %d)' % start_at, [])
            continue
        first_final = {}
        for (ev, pre, post) in trace:
            for c in range(len(W)):
                st = post['comps'][c][0]
                if st in FINALS:
                    if c in first_final and first_final[c] != st:
                        ctx.fail(dict(case, component=c), 'a component changed from one final state (%s) to another (%s) '
                                 'after a restart from stage %d' % (first_final[c], st, start_at), [])
                    first_final.setdefault(c, st)
                if W[c]['stage'] < start_at and post['comps'][c][2] > 0:
                    ctx.fail(dict(case, component=c), 'a component of a skipped stage was launched', [])
        for (ev, what) in SC.stage_state_violations(W, trace)[:1]:
            ctx.fail(dict(case, at=ev), what, [])
        for (c, p, what, ev) in SC.launch_violations(W, trace):
            if W[p]['stage'] >= start_at:
                ctx.fail(dict(case, component=c, producer=p, at=ev), what, [])


def run(ctx):
    rng = ctx.rng
    ctx.rule = ('families = (random DAG 1-7 components / 1-3 stages with replicas, aggregators, observers) x outcome table '
                '(benign: no unrecoverable exit by the rules in ~60% of families); each family is run to completion under N '
                'random fair interleavings; non-trivial = >= 2 components and a schedule longer than 3 events per component; '
                'distinct by (W, outcomes, schedule)')
    terms = []
    nfam = 60 if ctx.tier == 'quick' else 400
    nsched = 12 if ctx.tier == 'quick' else 20
    # corpus: F2 witness (observer of a subject that is shut down)
    W = [SC.comp(sd=['KnownIssue']), SC.comp(preds=[0], rep=True)]
    run_family(ctx, W, {0: ['KnownIssue'], 1: ['Success']}, nsched, terms)
    # more than five consecutive refused submissions (the sixth re-submission must be refused), and exactly five
    for nsf in (5, 6):
        Wsf = [SC.comp(mx=3), SC.comp(preds=[0])]
        run_family(ctx, Wsf, {0: ['SubmissionFailed'] * nsf + ['Success'], 1: ['Success']}, max(4, nsched // 3), terms)
    # restart from a later stage
    nres = 12 if ctx.tier == 'quick' else 150
    for i in range(nres):
        W = SC.gen_workflow(rng)
        nst = max(d['stage'] for d in W) + 1
        if nst < 2:
            continue
        restart_family(ctx, W, SC.gen_outcome(rng, W), rng.randint(1, nst - 1), 3)
    Wr = [SC.comp(), SC.comp(stage=1, sd=['KnownIssue']), SC.comp(stage=1), SC.comp(stage=2, preds=[1, 2])]
    restart_family(ctx, Wr, {0: ['Success'], 1: ['KnownIssue'], 2: ['Success'], 3: ['Success']}, 1, 6)
    for i in range(nfam):
        W = SC.gen_workflow(rng)
        benign = rng.random() < 0.6
        out = SC.gen_outcome(rng, W, benign=benign)
        run_family(ctx, W, out, nsched, terms)
    # components that join a stage while its loop runs (live patch applied while the controller sleeps; shared with
    # C01): every stage ends with all of its components final, a failed component makes its stage fail, final states
    # never change; compared with Sched.Patch.check_pcase after every event
    import c01
    pterms = []
    pev = ('Patch', [SC.comp(mx=0, ro=[])], [], [['UnknownIssue']])
    for tail in ([('Exit', 0), ('PM', 0), ('Fin', 0), ('Exit', 1), ('PM', 1), ('Fin', 1), ('Tick',), ('Tick',)],
                 [('Exit', 1), ('PM', 1), ('Fin', 1), ('Exit', 0), ('PM', 0), ('Fin', 0), ('Tick',), ('Tick',)],
                 [('Exit', 0), ('PM', 0), ('Fin', 0), ('Tick',), ('Exit', 1), ('PM', 1), ('Fin', 1), ('Tick',), ('Tick',)]):
        c01.run_patched(ctx, [SC.comp()], {0: ['Success']}, c01.scripted([('Start',), ('Sleep',), pev, ('Wake',), ('Tick',)] + tail),
                        pterms, 'patch_corpus', lambda d: (pev if d.patches == 0 else None), who='C02')
    npa = 40 if ctx.tier == 'quick' else 400
    for i in range(npa):
        W = SC.gen_workflow(rng, nmax=5)
        out = SC.gen_outcome(rng, W)
        r2 = random.Random(rng.random())
        c01.run_patched(ctx, W, out, c01.patch_chooser(r2, r2.choice([0.1, 0.25, 0.4])), pterms, 'patch_random',
                        SC.make_patcher(r2), who='C02')
    pbad = ctx.model_mismatches(SC.HEADER + '\nRequire Import V.Sched.Sleep V.Sched.Patch.', [t[0] for t in pterms],
                                'check_pcase', chunk=25, name='patch')
    for k, i in enumerate(pbad):
        ctx.disagree(pterms[i][1], 'trace of the real controller with a live patch applied while it sleeps', '',
                     'C02 trace with live patch: real Controller vs Sched.Patch.prun')
    bad = ctx.model_mismatches(SC.HEADER, [t[0] for t in terms], 'check_case', chunk=40)
    for k, i in enumerate(bad):
        ctx.disagree(terms[i][1], 'trace of the real controller', '', 'C01/C02 trace: real Controller vs Sched.Model.step')


def replay(ctx, path):
    d = json.load(open(path))
    c = d.get('case') or d.get('first', {}).get('case')
    if not c or 'W' not in c:
        print('replay file names no input (proof/correspondence obligation): re-run ./check C02')
        return 2
    out = {int(k): v for k, v in c['outcome'].items()}
    terms = []
    run_family(ctx, c['W'], out, 40, terms)
    for f in ctx.failures:
        print('REPRODUCED: %s' % f['what'])
    return 1 if ctx.failures else 0
