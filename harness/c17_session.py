"""C17, second part: SEQUENCES of questions put to one FlowIRConcrete, the non-primitive route (instance() / replicate() /
FlowIRExperimentConfiguration(primitive=False)) and %(variable)s references inside environment values.

A session case = a three-platform document (default, p, q) with global variables per platform, environments whose values
contain %(name)s references (to global variables, to the environment's own variables, to variables that only ANOTHER
environment defines, to system variables, to nothing) next to $NAME / ${NAME} references, two to four components, and a
list of questions (harness/c17_impl.py: session_op).  Checked:
  * every answer against Env.InstModel evaluated on the ORIGINAL document for the platform of the question
    (check_answer: inst_envs, get_environment, env_for_node_v / env_with_name_v on the primitive or the replicated
    configuration);
  * predicate, read-only: the answer of the shared object == the answer of a fresh object;
  * predicate, declared sources only: the answer of a configuration == the answer for the document without the
    environments of every other name; the variables of a built environment come from the system variables, the
    selected platform's and the default platform's environment of that name, DEFAULTS imports and search-path variables;
    get_environment(name, X) is X's environment layered over default's.
Generation keeps the definitions acyclic (a fixed order of all names; a value refers only to earlier names, or with
"$" to itself), never refers with %( )s to a name that may hold a YAML null (FlowIRVariableInvalid) and keeps every
reference inside a GLOBAL variable resolvable (otherwise every component raises when it is loaded)."""
import common
from common import clist, cstr, cbool

import c17 as base

UNKNOWN = 'FlowIREnvironmentUnknown'
VARUNKNOWN = 'FlowIRVariableUnknown'
HEADER = 'Require Import V.Env.Model V.Env.InstModel.\nOpen Scope string_scope.\nOpen Scope list_scope.'
PLATFORMS = ['default', 'p', 'q']

# one order for every name of a session: the value of a name refers only to names before it
ORDER = ['LV', 'HOME', 'SECRET', 'INSTANCE_DIR', 'FLOW_RUN_ID', 'G', 'ver', 'H', 'A', 'root-dir', 'X', 'B', 'PATH', 'C',
         'ONLYD', 'DEF', 'PYTHONPATH', 'N1', 'Z9']
NULLABLE = ['C', 'ONLYD', 'DEF', 'Z9']          # may hold a YAML null: never the target of a %( )s reference
GLOBALS = ['G', 'ver', 'H', 'A', 'root-dir', 'X', 'B']
ENVVARS = ['A', 'X', 'B', 'PATH', 'C', 'ONLYD', 'DEF', 'G', 'H', 'N1', 'PYTHONPATH', 'INSTANCE_DIR', 'Z9', 'ver']
LAUNCH = ['LV', 'HOME', 'SECRET', 'PATH', 'PYTHONPATH', 'A', 'X', 'LD_LIBRARY_PATH', 'PYTHONHOME', 'TOKEN']
ENAMES = ['foo', 'bar', 'environment', 'tools']
UNCASED = ['3.11', '11_8', '_', '42', '2024.1-0']     # legal names without any cased character (their own lower-case form)
LITS = ['x', '/opt/bin', ':', 'v-1', '.', '/', 'a b', '=', '-', '%', '(', ')s']


# ------------------------------------------------------------------ Coq printing
def crctx(kvs):
    return '(%s : rctx)' % clist(kvs, lambda kv: '(%s, %s)' % (cstr(kv[0]), base.craw(kv[1])))


def cvcfg(s, plat):
    return ('{| base := {| is_default := %s; denvs := %s; penvs := %s; sysv := %s |}; dglob := %s; pglob := %s |}' % (
        cbool(plat == 'default'), base.ctab(s['envs']['default']), base.ctab(s['envs'][plat]), base.cmap(s['sysv']),
        crctx(s['globals']['default']), crctx(s['globals'][plat])))


def cres3(r):
    if r == UNKNOWN:
        return 'ErrEnv'
    if r == VARUNKNOWN:
        return 'ErrVar'
    return '(Ok3 %s)' % base.cmap(r)


def canswer(s, op, ans):
    if op['op'] in ('instance', 'replicate'):
        return '(AInst %s)' % base.ctab(ans)
    if op['op'] == 'get':
        return '(AGet %s %s)' % (cstr(op['name']), base.cres(ans))
    cm = s['comps'][op['comp']]
    return '(ANode %s %s %s %s %s)' % (cbool(op['nonprim']), base.cname(cm['name']), cbool(cm['interp']),
                                       cres3(ans['full']), cres3(ans['unexp']))


def expressible(op, ans):
    if op['op'] in ('instance', 'replicate'):
        return isinstance(ans, list)
    if op['op'] == 'get':
        return ans == UNKNOWN or isinstance(ans, list)
    return (isinstance(ans, dict) and all(ans.get(k) in (UNKNOWN, VARUNKNOWN) or isinstance(ans.get(k), list)
                                           for k in ('full', 'unexp')))


# ------------------------------------------------------------------ Python mirror
def old_case(s, plat, name, interp):
    return {'platform': 'default' if plat == 'default' else 'p', 'envs': {'default': s['envs']['default'], 'p': s['envs'][plat]},
            'sysv': s['sysv'], 'launch': s['launch'], 'name': name, 'interp': interp}


def session_predicate(ctx, case, s, i, op, r):
    ans = r['ans']
    what = '%s(%s)' % (op['op'], op['platform'])
    rec = {'case': case, 'question': i, 'op': op, 'impl': r}
    # read-only: what the object answered before must not matter
    if ans != r['fresh']:
        ctx.fail(rec, 'an object that answered other questions before (instance / replicate / environments of another platform) '
                      'answers %s differently from a fresh object of the same document' % op['op'], [])
    if 'iso' in r and ans != r['iso']:
        ctx.fail(rec, 'the environment of a component depends on environments of OTHER names that the package declares', [])
    if op['op'] == 'get':
        c = old_case(s, op['platform'], op['name'], False)
        lname = op['name'].lower()
        if lname == 'none':
            want, amb = {}, False
        else:
            dl = base.candidates(c['envs']['default'], lname)
            pl = dl if op['platform'] == 'default' else base.candidates(c['envs']['p'], lname)
            amb = len(dl) > 1 or len(pl) > 1
            if not pl and (op['platform'] == 'default' or not dl):
                want = None
            else:
                want = {}
                if op['platform'] != 'default' and dl:
                    want.update({k: base.to_s(v) for k, v in dl[-1]})
                if pl:
                    want.update({k: base.to_s(v) for k, v in pl[-1]})
        if want is None:
            if ans != UNKNOWN:
                ctx.fail(rec, 'get_environment of a name that neither the platform nor platform default defines did not raise '
                              'FlowIREnvironmentUnknown', [])
        elif ans == UNKNOWN:
            ctx.fail(rec, 'FlowIREnvironmentUnknown for an environment that is defined', [])
        elif not amb and isinstance(ans, list) and dict(ans) != want:
            ctx.fail(rec, 'get_environment is not the platform\'s environment layered over the same-named environment of '
                          'platform default', [])
        return what, bool(want)
    if op['op'] == 'node' and isinstance(ans, dict):
        cm = s['comps'][op['comp']]
        c = old_case(s, op['platform'], cm['name'], cm['interp'])
        kind, sel, amb, allk = base.select(c)
        full, unexp = ans.get('full'), ans.get('unexp')
        if sel is None:
            if full != UNKNOWN or unexp != UNKNOWN:
                ctx.fail(rec, 'an environment that neither the selected nor the default platform defines did not raise '
                              'FlowIREnvironmentUnknown', [])
            return what + '-unknown', False
        if full == UNKNOWN or unexp == UNKNOWN:
            ctx.fail(rec, 'FlowIREnvironmentUnknown for an environment that is defined (%s)' % kind, [])
            return what, False
        launch, sysv = dict(s['launch']), dict(s['sysv'])
        pre = dict(sysv)
        pre.update(sel)
        dnames = pre['DEFAULTS'].split(':') if 'DEFAULTS' in pre else []
        if amb:
            lname = 'environment' if kind == 'default' else (cm['name'] or '').lower()
            for plat in ('default', 'p'):
                for cand in base.candidates(c['envs'][plat], lname):
                    dnames = dnames + base.to_s(dict(cand).get('DEFAULTS')).split(':')
        imported = set(v for v in dnames if v in launch)
        pathv = set(v for v in base.PATH_VARS if v in launch) if cm['interp'] else set()
        allowed = set(sysv) | (allk if amb else set(sel)) | imported | pathv
        for which, env in (('task', full), ('unexpanded', unexp)):
            if isinstance(env, list) and set(k for k, _ in env) - allowed - {'DEFAULTS'}:
                ctx.fail(rec, 'the %s environment has a variable that comes from none of the declared sources (system variables, the '
                              'environment of the selected platform over platform default, DEFAULTS imports, search paths)' % which, [])
                break
        return what + ('-np' if op['nonprim'] else '-prim'), kind in ('named', 'default') and bool(sel)
    return what, True


# ------------------------------------------------------------------ generation
def spell(rng, n):
    return base.spell(n, rng.choice(['lower', 'lower', 'lower', 'upper', 'mixed']))


def gen_value(rng, name, defined_pct, allow_null=True, allow_undef=True):
    """a value for variable `name`: refers only to names before it in ORDER (%( )s: those of defined_pct)"""
    i = ORDER.index(name)
    lower = ORDER[:i]
    r = rng.random()
    if r < 0.05 and allow_null and name in NULLABLE:
        return None
    if r < 0.12:
        return rng.choice([0, 7, -3, True, False])
    pct = [n for n in lower if n not in NULLABLE and n in defined_pct]
    parts = []
    for _ in range(rng.randint(1, 3)):
        q = rng.random()
        if q < 0.42 and (pct or allow_undef):
            if allow_undef and (not pct or rng.random() < 0.12):
                n = rng.choice(['UNDEFINED', 'SECRET', 'LV'] + [x for x in lower if x not in NULLABLE])
            else:
                n = rng.choice(pct)
            parts.append('%%(%s)s' % n)
        elif q < 0.62:
            n = rng.choice(lower + [name, 'UNDEF2'])
            parts.append('${%s}' % n if rng.random() < 0.5 else '$' + n)
        else:
            parts.append(rng.choice(LITS))
    return ''.join(parts)


def clean(v):
    """keep the text inside the modelled fragment: a literal '%' stays only where it cannot start a reference
    ('%(' that is not a generated %(name)s reference loses its '%')"""
    if not isinstance(v, str):
        return v
    import re
    out, i = [], 0
    for m in re.finditer(r'%\([a-zA-Z0-9_.-]+\)s', v):
        seg = v[i:m.start()]
        out.append(seg.replace('%(', '('))
        if out[-1].endswith('%'):
            out[-1] = out[-1][:-1]
        out.append(m.group())
        i = m.end()
    out.append(v[i:].replace('%(', '('))
    return ''.join(out)


def gen_globals(rng):
    g = {}
    dnames = [n for n in GLOBALS if rng.random() < 0.6]
    defined = set()
    tab = []
    for n in dnames:      # GLOBALS is in ORDER order: references only to globals defined before
        tab.append([n, clean(gen_value(rng, n, defined, allow_null=False, allow_undef=False))])
        defined.add(n)
    rng.shuffle(tab)
    g['default'] = tab
    for plat in ('p', 'q'):
        t = []
        for n in GLOBALS:
            if rng.random() < 0.3:
                t.append([n, clean(gen_value(rng, n, set(dnames), allow_null=False, allow_undef=False))])
        rng.shuffle(t)
        g[plat] = t
    return g


def gen_env(rng, launch_keys, globals_all):
    names = rng.sample(ENVVARS, rng.randint(1, 4))
    kvs = []
    for n in names:
        # %( )s targets: global variables, this environment's own variables, and (rarely) anything before it
        targets = set(globals_all) | set(names) | ({'INSTANCE_DIR', 'FLOW_RUN_ID'} if rng.random() < 0.15 else set())
        kvs.append([n, clean(gen_value(rng, n, targets))])
    if rng.random() < 0.3:
        pool = launch_keys + ['NOPE'] + names
        kvs.insert(rng.randint(0, len(kvs)), ['DEFAULTS', ':'.join(rng.choice(pool) for _ in range(rng.randint(0, 3)))])
    return kvs


def gen_ops(rng, ncomps, names):
    ops = []
    for _ in range(rng.randint(2, 5)):
        plat = rng.choice(PLATFORMS)
        q = rng.random()
        if q < 0.2:
            ops.append({'op': 'instance', 'platform': plat, 'primitive': rng.random() < 0.5})
        elif q < 0.33:
            ops.append({'op': 'replicate', 'platform': plat})
        elif q < 0.6:
            ops.append({'op': 'get', 'platform': plat, 'explicit': rng.random() < 0.5,
                        'name': spell(rng, rng.choice(names + ['missing', 'none']).lower())})
        else:
            ops.append({'op': 'node', 'platform': plat, 'nonprim': rng.random() < 0.55, 'comp': rng.randrange(ncomps)})
    return ops


def gen_session(rng):
    launch = [[k, rng.choice(['L-' + k, '/l/bin:/l/usr', '1', 'l $'])] for k in LAUNCH if rng.random() < 0.55]
    rng.shuffle(launch)
    lk = [k for k, _ in launch]
    sysv = [[k, rng.choice(['/inst/x.instance', 'sys-' + k])] for k in ('INSTANCE_DIR', 'FLOW_RUN_ID') if rng.random() < 0.8]
    g = gen_globals(rng)
    gall = [k for plat in PLATFORMS for k, _ in g[plat]]
    envs = {}
    pool = list(ENAMES)
    if rng.random() < 0.3:          # a document that names environments after versions
        pool += rng.sample(UNCASED, 2)
    for plat in PLATFORMS:
        tab = []
        for n in rng.sample(pool, rng.randint(0, 3) if plat != 'default' else rng.randint(1, 4)):
            tab.append([spell(rng, n), gen_env(rng, lk, gall)])
        envs[plat] = tab
    declared = [n for plat in PLATFORMS for n, _ in envs[plat]]
    comps = []
    for _ in range(rng.randint(2, 4)):
        r = rng.random()
        if r < 0.1:
            name = rng.choice([None, '', 'Environment'])
        elif r < 0.15:
            name = rng.choice(['none', 'NONE'])
        elif r < 0.22 or not declared:
            name = 'missing'
        else:
            name = spell(rng, rng.choice(declared).lower())
        comps.append({'name': name, 'interp': rng.random() < 0.3})
    return {'session': {'platforms': PLATFORMS, 'envs': envs, 'globals': g, 'sysv': sysv, 'launch': launch, 'comps': comps,
                        'ops': gen_ops(rng, len(comps), declared or ['foo'])}}


SYSV0 = [['INSTANCE_DIR', '/inst/e.instance'], ['FLOW_RUN_ID', 'r']]
LAUNCH0 = [['PATH', '/bin:/usr/bin'], ['HOME', '/h'], ['LV', 'launch'], ['PYTHONPATH', '/pp'], ['SECRET', 's3cr3t'], ['X', 'launch-x']]


def family_sequences():
    """systematic: one object resolves / answers for platform X, then is asked about platform Y"""
    envs = {
        'default': [['environment', [['APP', '/app']]],
                    ['mine', [['WHERE', 'default'], ['ONLYD', 'yes'], ['TOOL', 'tool-%(ver)s'], ['B', '$WHERE:%(G)s']]]],
        'p': [['environment', [['MODULES', 'p-modules']]], ['Mine', [['WHERE', 'p'], ['ONLYP', '%(G)s']]], ['sched', [['QUEUE', 'p-q']]]],
        'q': [['mine', [['WHERE', 'q'], ['ONLYQ', 'yes'], ['DEFAULTS', 'LV']]]],
    }
    g = {'default': [['ver', '1'], ['G', 'g-%(ver)s']], 'p': [['G', 'gp']], 'q': [['ver', '2']]}
    comps = [{'name': 'mine', 'interp': False}, {'name': None, 'interp': True}, {'name': 'SCHED', 'interp': False}]
    out = []
    for x in PLATFORMS:
        for y in PLATFORMS:
            if x == y:
                continue
            for first in ({'op': 'instance', 'platform': x, 'primitive': False}, {'op': 'instance', 'platform': x, 'primitive': True},
                          {'op': 'replicate', 'platform': x}, {'op': 'node', 'platform': x, 'nonprim': True, 'comp': 0},
                          {'op': 'node', 'platform': x, 'nonprim': False, 'comp': 0}):
                ops = [first,
                       {'op': 'get', 'platform': y, 'explicit': True, 'name': 'mine'},
                       {'op': 'get', 'platform': y, 'explicit': False, 'name': 'Sched'},
                       {'op': 'node', 'platform': y, 'nonprim': False, 'comp': 0},
                       {'op': 'node', 'platform': y, 'nonprim': True, 'comp': 1},
                       {'op': 'node', 'platform': y, 'nonprim': False, 'comp': 2},
                       {'op': 'instance', 'platform': y, 'primitive': False},
                       {'op': 'get', 'platform': 'default', 'explicit': True, 'name': 'environment'}]
                out.append({'session': {'platforms': PLATFORMS, 'envs': envs, 'globals': g, 'sysv': SYSV0, 'launch': LAUNCH0,
                                        'comps': comps, 'ops': ops}})
    return out


def family_contexts():
    """systematic: two environments, one defines a variable whose name the other one references with %( )s; both declaration
    orders, both routes, default and non-default platform; the referenced name is a global variable / only defined by the
    other environment / also defined by the referencing environment"""
    out = []
    for order in (0, 1):
        for kind in ('global', 'foreign', 'own'):
            a = ['alpha', [['X', 'x-of-alpha'], ['ONLYD', '%(X)s/a']]]
            b_vars = [['B', 'b:%(X)s:$HOME']]
            if kind == 'own':
                b_vars.insert(0, ['X', 'x-of-beta'])
            b = ['beta', b_vars]
            # symmetric twin: beta defines H, alpha references it
            a[1].append(['PATH', '%(H)s/bin:$PATH'])
            b[1].append(['H', 'h-of-beta'])
            tab = [a, b] if order == 0 else [b, a]
            g = {'default': ([['X', 'x-global']] if kind != 'foreign' else []) + [['H', 'h-global']], 'p': [['H', 'h-p']], 'q': []}
            comps = [{'name': 'alpha', 'interp': False}, {'name': 'beta', 'interp': False}]
            ops = []
            for plat in ('default', 'p'):
                for nonprim in (False, True):
                    for comp in (0, 1):
                        ops.append({'op': 'node', 'platform': plat, 'nonprim': nonprim, 'comp': comp})
                ops.append({'op': 'replicate', 'platform': plat})
            out.append({'session': {'platforms': PLATFORMS, 'envs': {'default': tab, 'p': [['beta', [['W', 'p']]]], 'q': []},
                                    'globals': g, 'sysv': SYSV0, 'launch': LAUNCH0, 'comps': comps, 'ops': ops}})
    return out


CORPUS = [
    # boundary of "read-only": the smallest sequence - resolve for p, then ask for default and for q
    {'session': {'platforms': PLATFORMS,
                 'envs': {'default': [['e', [['A', 'd']]]], 'p': [['e', [['A', 'p'], ['ONLYP', '1']]], ['only-p', [['Z9', None]]]], 'q': []},
                 'globals': {'default': [], 'p': [], 'q': []}, 'sysv': SYSV0, 'launch': LAUNCH0,
                 'comps': [{'name': 'e', 'interp': False}, {'name': 'only-p', 'interp': False}],
                 'ops': [{'op': 'instance', 'platform': 'p', 'primitive': False},
                         {'op': 'get', 'platform': 'default', 'explicit': True, 'name': 'e'},
                         {'op': 'get', 'platform': 'q', 'explicit': True, 'name': 'only-p'},
                         {'op': 'node', 'platform': 'q', 'nonprim': False, 'comp': 0},
                         {'op': 'node', 'platform': 'q', 'nonprim': True, 'comp': 1}]}},
    # boundary of the interpolation context: a global variable that refers to a name only an environment defines, a system
    # variable referenced with %( )s (resolved by environmentForNode), numbers, a reference to nothing
    {'session': {'platforms': PLATFORMS,
                 'envs': {'default': [['one', [['X', 7], ['B', '%(X)s:%(G)s:%(INSTANCE_DIR)s'], ['PATH', '%(G)s:$PATH'], ['DEFAULTS', 'PATH']]],
                                      ['two', [['B', '%(X)s'], ['C', '%(UNDEFINED)s']]],
                                      ['three', [['N1', '%(G)s/%(A)s'], ['G', 'g-of-three']]]],
                          'p': [], 'q': []},
                 'globals': {'default': [['G', 'g'], ['A', 'a-%(G)s']], 'p': [['G', 'gp']], 'q': []}, 'sysv': SYSV0, 'launch': LAUNCH0,
                 'comps': [{'name': 'one', 'interp': True}, {'name': 'two', 'interp': False}, {'name': 'THREE', 'interp': False}],
                 'ops': [{'op': 'node', 'platform': pl, 'nonprim': np_, 'comp': k}
                         for pl in ('default', 'p') for np_ in (False, True) for k in (0, 1, 2)]}},
    # boundary of the name normalisation: names without any cased character, on default + p, on p only, on default only
    {'session': {'platforms': PLATFORMS,
                 'envs': {'default': [['3.11', [['PYVER', '3.11'], ['PREFIX', '/opt/python'], ['BIN', '$PREFIX/bin:%(G)s']]], ['_', [['U', 'u']]]],
                          'p': [['3.11', [['PREFIX', '/gpfs/python']]], ['11_8', [['CUDA', '11.8']]]], 'q': []},
                 'globals': {'default': [['G', 'g']], 'p': [], 'q': []}, 'sysv': SYSV0, 'launch': LAUNCH0,
                 'comps': [{'name': '3.11', 'interp': True}, {'name': '11_8', 'interp': False}, {'name': '_', 'interp': False}],
                 'ops': [{'op': 'get', 'platform': 'p', 'explicit': True, 'name': '3.11'},
                         {'op': 'get', 'platform': 'q', 'explicit': False, 'name': '_'},
                         {'op': 'replicate', 'platform': 'p'}]
                        + [{'op': 'node', 'platform': pl, 'nonprim': np_, 'comp': k}
                           for pl in ('default', 'p') for np_ in (False, True) for k in (0, 1, 2)]}},
]


# ------------------------------------------------------------------ exploring
def explore_sessions(ctx, cases):
    import time
    t0 = time.time()
    results = base.run_impl(cases, nproc=6)
    ctx.extra['session_impl_s'] = round(time.time() - t0, 1)
    terms = []
    for case, r in zip(cases, results):
        s = case['session']
        if 'build' in r or 'launch_modified' in r:
            ctx.case(case, False)
            ctx.fail({'case': case, 'impl': r}, 'a sequence of environment questions could not be run or modified the launch environment', [])
            continue
        nontriv = False
        for i, (op, ro) in enumerate(zip(s['ops'], r['ops'])):
            if not expressible(op, ro['ans']):
                ctx.fail({'case': case, 'question': i, 'op': op, 'impl': ro}, 'a question about environments raised an error other than '
                         'FlowIREnvironmentUnknown / FlowIRVariableUnknown or returned non-string entries', [])
                continue
            what, nt = session_predicate(ctx, case, s, i, op, ro)
            nontriv = nontriv or nt
            ctx.count('session_op_' + what)
            if op['op'] == 'node':
                full = ro['ans']['full']
                ctx.count('session_node_' + ('np' if op['nonprim'] else 'prim') + '_' + (full if isinstance(full, str) else 'env'))
            if i > 0 and op['platform'] != s['ops'][0]['platform']:
                ctx.count('session_question_after_other_platform')
            terms.append(('(%s, %s, %s)' % (cvcfg(s, op['platform']), base.cmap(s['launch']), canswer(s, op, ro['ans'])), case, i, ro))
        ctx.case(case, nontriv)
        ctx.count('sessions')
        if any('%(' in v for plat in PLATFORMS for _, kvs in s['envs'][plat] for _, v in kvs if isinstance(v, str)):
            ctx.count('sessions_with_pct_reference')
    bad = ctx.model_mismatches(HEADER, [t[0] for t in terms], 'check_answer', chunk=200, name='session')
    ctx.count('session_answers', len(terms))
    for k, j in enumerate(bad):
        _, case, i, ro = terms[j]
        s = case['session']
        op = s['ops'][i]
        m = ''
        if k < 3:
            v = cvcfg(s, op['platform'])
            if op['op'] in ('instance', 'replicate'):
                m = ctx.model_eval(HEADER, '(inst_envs %s)' % v)
            elif op['op'] == 'get':
                m = ctx.model_eval(HEADER, '(get_environment (base %s) %s)' % (v, cstr(op['name'])))
            else:
                cm = s['comps'][op['comp']]
                m = ctx.model_eval(HEADER, '(env_for_node_v (route %s %s) %s %s %s, env_with_name_v (route %s %s) %s %s)' % (
                    cbool(op['nonprim']), v, base.cmap(s['launch']), base.cname(cm['name']), cbool(cm['interp']),
                    cbool(op['nonprim']), v, base.cmap(s['launch']), base.cname(cm['name'])))
        ctx.disagree({'case': case, 'question': i, 'op': op}, ro['ans'], m,
                     'C17 sessions: instance()/replicate() environments, get_environment(name, platform), environmentForNode / '
                     'environmentWithName of a primitive / non-primitive configuration built on one object vs Env.InstModel on the '
                     'original document')


def session_cases(rng, tier):
    cases = list(CORPUS) + family_sequences() + family_contexts()
    n = 400 if tier == 'quick' else 6000
    cases += [gen_session(rng) for _ in range(n)]
    return cases
