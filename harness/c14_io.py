"""C14 - wrapped file I/O: records the file-system operation trace of a REAL updater and injects a
fault (process death or an I/O error) at a chosen operation boundary.

Operations (the alphabet of coq/Fs/Model.v):
    ('create', p)        open(p, 'w'|'w+'|'wt'|'x')      (truncating open)
    ('append', p, s)     f.write(s)   (every write is flushed to the real file at once)
    ('close',  p)        f.close()
    ('rename', p, q)     os.rename / os.replace
    ('remove', p)        os.remove / os.unlink
Only paths below `root` are intercepted; reads are passed through untouched.

Fault = (mode, k, j): at the k-th operation (0-based, counted over the whole call)
    mode 'die'  : the process dies: for an append the first j characters reach the disk; nothing else
                  happens afterwards (every later intercepted operation is suppressed and raises Crash,
                  a BaseException, so `except Exception` handlers cannot resurrect the process);
    mode 'eio'  : OSError(EIO) is raised by that operation (append: after j characters were written;
                  close: the descriptor is closed, then the error is raised; create/rename/remove:
                  nothing is done) and the code continues with its own error handling.
"""
import builtins
import errno
import os


class Crash(BaseException):
    pass


class _Proxy(object):
    def __init__(self, rec, path, real):
        self._rec = rec
        self._path = path
        self._real = real
        self._closed = False
        self.encoding = None  # PyYAML looks at it; str is written

    # -- what json.dump / yaml.dump / print / writeToStream use
    def write(self, s):
        rec = self._rec
        if rec.dead:
            raise Crash()
        if not isinstance(s, str):
            s = s.decode('utf-8')
        kind, j = rec.fault_here()
        if kind is None:
            self._real.write(s)
            self._real.flush()
            rec.ops.append(('append', rec.rel(self._path), s))
            return len(s)
        part = s[:max(0, min(j, len(s)))]
        self._real.write(part)
        self._real.flush()
        rec.ops.append(('append', rec.rel(self._path), part))
        rec.fault_split = (len(part), len(s))
        if kind == 'die':
            rec.dead = True
            raise Crash()
        raise OSError(errno.EIO, 'injected I/O error (write)')

    def flush(self):
        if self._rec.dead:
            raise Crash()

    def close(self):
        rec = self._rec
        if self._closed:
            return
        if rec.dead:
            self._closed = True
            try:
                self._real.close()
            except Exception:
                pass
            return  # the process is dead: nothing is recorded (nothing reaches the disk either)
        kind, _ = rec.fault_here()
        if kind == 'die':
            rec.dead = True
            self._closed = True
            self._real.close()
            raise Crash()
        self._closed = True
        self._real.close()
        rec.ops.append(('close', rec.rel(self._path)))
        if kind == 'eio':
            raise OSError(errno.EIO, 'injected I/O error (close)')

    @property
    def closed(self):
        return self._closed

    def __enter__(self):
        return self

    def __exit__(self, *a):
        self.close()
        return False

    def writable(self):
        return True

    def fileno(self):
        return self._real.fileno()


class Recorder(object):
    """with Recorder(root, fault) as rec: call_the_real_updater()  ->  rec.ops"""

    def __init__(self, root, fault=None):
        self.root = os.path.realpath(root)
        self.fault = fault
        self.ops = []
        self.count = 0
        self.dead = False
        self.fault_hit = False
        self.fault_split = None
        self.unexpected = []

    def rel(self, p):
        return os.path.relpath(os.path.realpath(p), self.root)

    def inside(self, p):
        try:
            rp = os.path.realpath(os.fspath(p))
        except TypeError:
            return False
        return rp == self.root or rp.startswith(self.root + os.sep)

    def fault_here(self):
        """called once per intercepted operation; returns (kind, j) if the fault falls on it"""
        k = self.count
        self.count += 1
        if self.fault is not None and not self.fault_hit and self.fault[1] == k:
            self.fault_hit = True
            return self.fault[0], self.fault[2]
        return None, 0

    # ---- patched entry points
    def _open(self, file, mode='r', *a, **kw):
        if isinstance(file, int) or not self.inside(file) or not any(c in mode for c in 'wxa+'):
            return self._o_open(file, mode, *a, **kw)
        if self.dead:
            raise Crash()
        if 'b' in mode or 'a' in mode or (mode.startswith('r') and '+' in mode):
            self.unexpected.append(('open', self.rel(file), mode))
            return self._o_open(file, mode, *a, **kw)
        kind, _ = self.fault_here()
        if kind == 'die':
            self.dead = True
            raise Crash()
        if kind == 'eio':
            raise OSError(errno.EIO, 'injected I/O error (open)')
        real = self._o_open(file, 'w', encoding='utf-8', newline='')
        self.ops.append(('create', self.rel(file)))
        return _Proxy(self, file, real)

    def _rename(self, name):
        orig = getattr(self, '_o_' + name)

        def f(src, dst, *a, **kw):
            if not (self.inside(src) or self.inside(dst)):
                return orig(src, dst, *a, **kw)
            if self.dead:
                raise Crash()
            kind, _ = self.fault_here()
            if kind == 'die':
                self.dead = True
                raise Crash()
            if kind == 'eio':
                raise OSError(errno.EIO, 'injected I/O error (rename)')
            r = orig(src, dst, *a, **kw)
            self.ops.append(('rename', self.rel(src), self.rel(dst)))
            return r
        return f

    def _remove(self, name):
        orig = getattr(self, '_o_' + name)

        def f(path, *a, **kw):
            if not self.inside(path):
                return orig(path, *a, **kw)
            if self.dead:
                raise Crash()
            kind, _ = self.fault_here()
            if kind == 'die':
                self.dead = True
                raise Crash()
            if kind == 'eio':
                raise OSError(errno.EIO, 'injected I/O error (remove)')
            r = orig(path, *a, **kw)
            self.ops.append(('remove', self.rel(path)))
            return r
        return f

    def __enter__(self):
        self._o_open = builtins.open
        self._o_rename = os.rename
        self._o_replace = os.replace
        self._o_remove = os.remove
        self._o_unlink = os.unlink
        builtins.open = self._open
        os.rename = self._rename('rename')
        os.replace = self._rename('replace')
        os.remove = self._remove('remove')
        os.unlink = self._remove('unlink')
        return self

    def __exit__(self, et, ev, tb):
        builtins.open = self._o_open
        os.rename = self._o_rename
        os.replace = self._o_replace
        os.remove = self._o_remove
        os.unlink = self._o_unlink
        return et is not None and issubclass(et, Crash)  # a simulated death ends the call, silently


def read_text(path):
    """on-disk text of a file (no newline translation), None when it does not exist"""
    try:
        with open(path, 'r', encoding='utf-8', newline='') as f:
            return f.read()
    except FileNotFoundError:
        return None
