"""C13 driver: a REAL experiment.runtime.engine.RepeatingEngine whose run() executes the REAL
monitor.CreateMonitor loop synchronously (the monitor thread is replaced by a direct call) under a fake clock.
The only points at which time advances are monitor's time.sleep (the harness advances the clock and injects
the scripted events: new producer output, the producers-finished notification, an external kill, the expiry of
the kill-after-producers-done timer) and the fake task's wait()."""
import datetime as _dt
import logging
import os
import threading
import types

EPOCH = _dt.datetime(2030, 1, 1, 0, 0, 0)


def delay_raw(cfg):
    """the value of the variable kill-after-producers-done-delay as the component configures it (cfg['delay']: a string or
    a number, 0 included; '30' when the case only says has_delay); None: the option is absent"""
    if not cfg['has_delay']:
        assert cfg.get('delay') is None, cfg
        return None
    raw = cfg.get('delay', '30')
    assert raw is not None, cfg
    return raw


def delay_ms(cfg):
    raw = delay_raw(cfg)
    return None if raw is None else int(round(float(raw) * 1000))


def prod_list(cfg):
    """the observer's producers, in order: [dict(same_stage, prod_rep)]"""
    if cfg.get('prods') is not None:
        # (an entry marked loop_only is a component the observer only WAITS for - it is one of the components a loop
        #  reference stands for, never the latest: Job.producerInstances does not list it; producer-level scripts only)
        return [dict(same_stage=bool(p['same_stage']), prod_rep=bool(p['prod_rep'])) for p in cfg['prods']
                if not p.get('loop_only')]
    if not cfg['has_prod']:
        return []
    return [dict(same_stage=bool(cfg['same_stage']), prod_rep=bool(cfg['prod_rep']))]


OBS_STAGE = 2          # producer-level scripts: the observer is stage2.obs; earlier stages are 0 and 1
OBS_NAME = 'obs'
OBS_IDX = 99           # what the observer itself / an unrelated component k count as in a producer list
STRANGER_IDX = 100


def ref_layout(cfg):
    """producer-level scripts: where the observer's producers live in the workflow graph and how the observer
    references them.  Returns dict(prods=[dict(stage, name, inst)], refs=[dict(to, via, file, method)], extra=[dict(stage,
    name, inst)]).  prods[i] (optional keys of cfg['prods'][i]): stage (OBS_STAGE iff same_stage), component name
    (unique within a stage only), inst = a ComponentState exists for it (false: a component of an earlier stage
    that was not re-created when a later stage was restarted).  refs: one data reference each, `to` = producer
    indices; via 'abs' (stageN.name), 'rel' (name, same stage only), 'loop' (a loop placeholder standing for all of
    `to`; only the method loopref refers to all of them, any other method to the latest = last one).  extra:
    unrelated components in the graph.  Defaults: distinct names, one absolute reference per producer."""
    raw = cfg.get('prods') if cfg.get('prods') is not None else prod_list(cfg)
    prods = []
    for i, r in enumerate(raw):
        stage = r.get('stage', OBS_STAGE if r['same_stage'] else i % 2)
        prods.append(dict(stage=int(stage), name=r.get('name', 'prod%d' % i), inst=bool(r.get('inst', True)),
                          loop_only=bool(r.get('loop_only'))))
        assert (stage == OBS_STAGE) == bool(r['same_stage']), (cfg, i)
        assert not (i and prods[i - 1]['loop_only'] and not prods[i]['loop_only']), cfg      # loop-only components come last
    refs = cfg.get('refs')
    if refs is None:
        refs = [dict(to=[i], via='abs', file=None, method='ref') for i in range(len(prods)) if not prods[i]['loop_only']]
    extra = [dict(stage=int(x['stage']), name=x['name'], inst=bool(x.get('inst', True))) for x in (cfg.get('extra') or [])]
    keys = [(x['stage'], x['name']) for x in prods + extra] + [(OBS_STAGE, OBS_NAME)]
    assert len(set(keys)) == len(keys), keys
    for r in refs:
        assert r['to'] and all(0 <= i < len(prods) for i in r['to']), r
        assert r['via'] in ('abs', 'rel', 'loop') and (r['via'] == 'loop' or len(r['to']) == 1), r
        assert r['via'] != 'rel' or prods[r['to'][0]]['stage'] == OBS_STAGE, r
        assert not prods[r['to'][-1]]['loop_only'], r        # never referenced directly, never the latest of a loop
    return dict(prods=prods, refs=refs, extra=extra)


def ref_targets(lay):
    """the producers (indices) each reference stands for"""
    return [list(r['to'] if (r['via'] != 'loop' or r['method'] == 'loopref') else r['to'][-1:]) for r in lay['refs']]


def ref_ids(lay):
    """the component ids (stage, name) each reference stands for - what the observer's producer list is made from"""
    return [[(lay['prods'][i]['stage'], lay['prods'][i]['name']) for i in to] for to in ref_targets(lay)]


# ---------------------------------------------------------------- real producers (cfg['real'])
REAL_OBS_STAGE = 2     # the observer and its same-stage producers; the other producers live in stage 1; stage0.up is upstream
UP_FILES = ['f.txt', 'g.dat']
DATA_FILES = ['seed.txt', 'mesh.dat']


def real_refs(rp):
    """the references of one REAL producer, as FlowIR strings, in order.  rp = dict(direct=[(file, method)],
    comp=[(file|None, method)], src=bool, late=bool): direct references to files of the package (data/<file>, or 'ABS:<file>': an
    absolute path outside the instance), references to the upstream component stage0.up (a file of it or the whole
    directory), and - src - a :ref reference to the same-stage, non-repeating component stage<k>.src"""
    out = []
    for (f, m) in rp.get('direct', []):
        out.append(('%s:%s' % (f, m)) if f.startswith('ABS:') else 'data/%s:%s' % (f, m))
    for (f, m) in rp.get('comp', []):
        out.append('stage0.up%s:%s' % ('/' + f if f else '', m))
    return out


def real_staged(rp):
    """(names staged in as inputs, names staged in as output (copyout)) of one real producer, by Job.stageIn's rule:
    path methods (copy, link) are staged before the list of inputs is taken, copyout after it, ref is not staged"""
    ins, outs = [], []
    for (f, m) in list(rp.get('direct', [])) + [(f or 'up', m) for (f, m) in rp.get('comp', [])]:
        name = os.path.basename(f[4:] if f.startswith('ABS:') else f)
        if m in ('copy', 'link'):
            ins.append(name)
        elif m == 'copyout':
            outs.append(name)
    return ins, outs


def real_flowir(cfg, absdir):
    plist = prod_list(cfg)
    comps = ["""- name: up
  stage: 0
  command:
    executable: "sleep"
    arguments: "1"
- name: mid
  stage: 1
  command:
    executable: "sleep"
    arguments: "1"
"""]
    need_src = set()
    obs_refs = []
    for i, (pc, rp) in enumerate(zip(plist, cfg['real'])):
        stage = REAL_OBS_STAGE if pc['same_stage'] else 1
        refs = [r.replace('ABS:', absdir + '/') for r in real_refs(rp)]
        if rp.get('src'):
            refs.append('stage%d.src:ref' % stage)
            need_src.add(stage)
        used = ' '.join(r for r in refs if r.endswith(':ref'))     # (a :ref reference must appear on the command line)
        c = '- name: prod%d\n  stage: %d\n  command:\n    executable: "echo"\n    arguments: "%s"\n' % (i, stage, used or '1')
        if refs:
            c += '  references:\n' + ''.join('  - "%s"\n' % r for r in refs)
        if pc['prod_rep']:
            c += '  workflowAttributes:\n    repeatInterval: 5\n'
        comps.append(c)
        obs_refs.append('stage%d.prod%d:ref' % (stage, i))
    for stage in sorted(need_src):
        comps.append('- name: src\n  stage: %d\n  command:\n    executable: "sleep"\n    arguments: "1"\n' % stage)
    wa = '    repeatInterval: %d\n' % (cfg['interval'] // 1000)
    if cfg['retries'] is not None:
        wa += '    repeatRetries: %d\n' % cfg['retries']
    wa += '    optimizer:\n      disable: true\n'
    var = ''
    if cfg['has_delay']:
        raw = delay_raw(cfg)
        var += '    kill-after-producers-done-delay: %s\n' % ('"%s"' % raw if isinstance(raw, str) else repr(raw))
    if not cfg['check_out']:
        var += '    check-producer-output: "false"\n'
    c = ('- name: obs\n  stage: %d\n  command:\n    executable: "echo"\n    arguments: "%s"\n  references:\n%s  workflowAttributes:\n%s'
         % (REAL_OBS_STAGE, ' '.join(obs_refs), ''.join('  - "%s"\n' % r for r in obs_refs), wa))
    if var:
        c += '  variables:\n' + var
    comps.append(c)
    return ('blueprint:\n  default:\n    global:\n      resourceManager:\n        config:\n          backend: local\n'
            'components:\n' + ''.join(comps))


class StopDriving(BaseException):
    """raised out of the fake sleep when the script is exhausted (the engine is still running)"""


class _Obj(object):
    pass


class _ProdState(object):
    """what ComponentState.stageIn may look at on a producer: isAlive(), state, notifyFinished, specification"""

    def __init__(self, drv, i, in_pm):
        self._drv, self._i, self._in_pm = drv, i, in_pm

    def isAlive(self):
        return self._drv.alive[self._i]

    @property
    def state(self):
        import experiment.model.codes as codes
        if not self._drv.alive[self._i]:
            return codes.FINISHED_STATE
        return codes.POSTMORTEM_STATE if self._in_pm else codes.RUNNING_STATE


class FakeTask(object):
    def __init__(self, drv, outcome):
        self.drv = drv
        self.o = outcome
        self.returncode = None
        self.exitReason = None
        self.schedulerId = 'verif'
        self.status = 'running'
        self.killed = 0
        self._alive = True
        import experiment.utilities.data
        self.performanceInfo = experiment.utilities.data.Matrix()

    def wait(self):
        d = self.drv
        d.now_ms += self.o['dur']
        if d.pending_ntf:
            # the producers finish (and notify) while this execution is in flight
            d.pending_ntf = False
            d.ntf_mid.append(d.k)
            d.eng.notify_all_producers_finished()
        if d.timed:
            # the clock drives the timer: it expires during this execution iff its time has come by the end of it
            d.maybe_fire()
        elif self.o['sui']:
            d.fire_suicide()
        self.returncode = self.o['rc']
        self.exitReason = 'ResourceExhausted' if self.o['re'] else ('Success' if self.o['rc'] == 0 else 'KnownIssue')
        self.status = 'finished'
        self._alive = False

    def isAlive(self):
        return self._alive

    def kill(self):
        self.killed += 1

    def poll(self):
        return self.returncode


class Driver(object):
    def __init__(self):
        import experiment.runtime.engine as E
        import experiment.runtime.monitor as M
        import experiment.model.data as D
        self.E, self.M, self.D = E, M, D
        self.now_ms = 0
        drv = self

        class FakeDT(_dt.datetime):
            @classmethod
            def now(cls, tz=None):
                return EPOCH + _dt.timedelta(milliseconds=drv.now_ms)
        shim = types.SimpleNamespace(datetime=FakeDT, timedelta=_dt.timedelta)
        self._saved = (E.datetime, M.datetime, M.threading, M.time, E.archive_stream, E.reactivex)
        E.datetime = shim
        M.datetime = shim

        class SyncThread(object):
            def __init__(s, target=None, name=None, **k):
                s.target = target

            def start(s):
                s.target()
        M.threading = types.SimpleNamespace(Thread=SyncThread, Event=threading.Event)
        M.time = types.SimpleNamespace(sleep=self._sleep, time=None)
        E.archive_stream = lambda *a, **k: None

        class FakeTimer(object):
            def __init__(s, delay):
                s.delay = delay

            def subscribe(s, on_next=None, on_error=None, on_completed=None, **k):
                if drv.timer_cb is None:
                    try:
                        drv.timer_due = drv.now_ms + int(round(float(s.delay) * 1000))
                    except Exception:
                        drv.timer_due = None
                        drv.errors.append('timer-delay:%r' % (s.delay,))
                drv.timer_cb = on_completed
                drv.timer_delay = s.delay
                drv.timers.append((drv.k, s.delay))
                return types.SimpleNamespace(dispose=lambda: None)
        rx = types.SimpleNamespace(**{k: getattr(E.reactivex, k) for k in dir(E.reactivex) if not k.startswith('__')})
        rx.timer = lambda d, *a, **k: FakeTimer(d)
        # Engine.__init__ builds its periodic state emission on reactivex.interval(5.0): once run() subscribes to
        # notifyFinished that interval would start a real timer thread per engine, for ever.  No periodic emission here.
        real_never = E.reactivex.never
        rx.interval = lambda *a, **k: real_never()
        E.reactivex = rx
        self.timer_cb = None

    def close(self):
        E, M = self.E, self.M
        E.datetime, M.datetime, M.threading, M.time, E.archive_stream, E.reactivex = self._saved

    # ------------------------------------------------------------------ script
    def maybe_fire(self):
        # timed scripts: the pending timer expires as soon as the (fake) clock has reached the time it was armed + its delay
        if self.timed and self.timer_cb is not None and self.timer_due is not None and self.now_ms >= self.timer_due:
            self.fire_suicide()

    def _notify(self):
        # every delivery of the producers-finished notification: was the engine alive, how many timers did it arm
        e = self.eng
        alive = bool(e.isAlive())
        n0 = len(self.timers)
        try:
            return self._real_notify()
        finally:
            self.notified.append({'k': min(self.k, len(self.steps) - 1), 'alive': alive, 't': self.now_ms,
                                  'timers': [d for (_k, d) in self.timers[n0:]]})

    def fire_suicide(self):
        cb, self.timer_cb = self.timer_cb, None
        if cb is not None:
            self.fired.append(self.k)
            try:
                cb()
            except Exception as e:  # report_exceptions re-raises
                self.errors.append('suicide:%s' % type(e).__name__)

    def _apply(self, ev):
        self._apply1(ev)
        self.maybe_fire()

    def _apply1(self, ev):
        if ev.startswith('Out'):
            # 'Out' = producer 0 writes output now, 'Out<k>' = producer k does (a write of a producer the
            # configuration does not have is a no-op; so is, in stageIn mode, the write of a producer that has finished)
            i = int(ev[3:] or 0)
            if i < len(self.los) and (self.alive is None or self.alive[i]):
                if self.real is not None:
                    self._real_write(i)
                self.los[i] = self.now_ms
                self.eff[self.k].append(ev)
        elif ev.startswith('Stg'):
            # real producers: producer k is staged in now (the REAL Job.stageIn)
            self._real_stage_in(int(ev[3:]))
        elif ev.startswith('Fin'):
            # stageIn mode: producer k finishes - its notifyFinished emits its last state and completes; the REAL
            # subscription made by ComponentState.stageIn decides whether that finishes "all producers"
            i = int(ev[3:])
            if self.alive is not None and i < len(self.alive) and self.alive[i]:
                self.alive[i] = False
                self.subjects[i].on_next(({'isAlive': False}, self.prod_states[i]))
                self.subjects[i].on_completed()
        elif ev == 'Notify':
            if self.alive is None:
                self.eff[self.k].append(ev)
            self.eng.notify_all_producers_finished()
        elif ev == 'Kill':
            self.eff[self.k].append(ev)
            self.kills.append(self.k)
            self.eng.kill()
        elif ev == 'Suicide':
            self.eff[self.k].append(ev)
            self.fire_suicide()
        else:
            raise ValueError(ev)

    def _observe(self):
        e = self.eng
        r = e.exitReason()
        self.obs.append({'launches': e._stateDict['numberTaskLaunches'], 'retries': e._stateDict['repeatRetries'],
                         'cancel': e.cancelMonitorEvent.is_set(), 'kc': bool(e.kernelCompleted), 'alive': e.isAlive(),
                         'reason': {None: 'RNone', 'Success': 'RSuccess', 'ResourceExhausted': 'RResExh'}.get(r, 'R?%s' % r),
                         'consume': bool(e.consume), 'pf': bool(e._producers_are_finished), 'suicide': bool(e._suicide),
                         'll': int(round((e.lastLaunched - EPOCH).total_seconds() * 1000)),
                         'actions': self.actions, 'lasts': self.lasts, 'now': self.now_ms})
        if self.real is not None:
            self._real_observe()

    def _sleep(self, secs):
        # the monitor sleeps: one poll is over
        if self.pending_ntf:
            # the poll launched nothing: the notification arrives right after it
            self.pending_ntf = False
            self.eng.notify_all_producers_finished()
            self.maybe_fire()
        self._observe()
        self.k += 1
        if self.k >= len(self.steps):
            raise StopDriving()
        if abs(secs - 5.0) > 1e-9:
            self.errors.append('sleep:%r' % (secs,))
        st = self.steps[self.k]
        self.now_ms += st['dt']
        self.maybe_fire()
        for ev in st['evs']:
            self._apply(ev)
        self.pending_ntf = bool(st['o'].get('ntf'))

    def _stage_in(self, cfg, plist):
        """stageIn mode: the notification is not scripted; the REAL ComponentState.stageIn (workflow.py) asks the REAL
        ComponentState.producers property for the observer's producers - the observer's data references (real
        experiment.model.graph.DataReference objects) resolved in a networkx workflow graph whose nodes carry weak
        references to the producers' (duck-typed) ComponentStates -, subscribes the real engine to the notifyFinished
        observables of those that are alive (cfg['alive0']) and calls notify_all_producers_finished itself.  Its
        thread-pool scheduler is replaced by an immediate one.  The job's producerInstances is the REAL
        Job.producerInstances run over the same graph."""
        import weakref
        import networkx
        import experiment.runtime.workflow as W
        import experiment.model.graph as G
        import reactivex.subject
        import reactivex.scheduler
        drv = self
        lay = ref_layout(cfg)
        self.alive = [bool(x) for x in cfg['alive0']]
        ncomp = len(lay['prods'])
        assert len(self.alive) == ncomp and len(plist) == len([p for p in lay['prods'] if not p['loop_only']])
        assert all(p['inst'] or not a for p, a in zip(lay['prods'], self.alive)), cfg
        self.subjects = [reactivex.subject.Subject() for _ in range(ncomp)]
        # a component the observer only waits for has a job of its own, which the observer's engine never looks at
        jobs = list(self.job_prods)
        for i in range(len(plist), ncomp):
            lj = _Obj()
            lj.stageIndex = 0 if lay['prods'][i]['stage'] == OBS_STAGE else -1
            lj.isRepeat = True
            lj.identification = 'stage%d.%s' % (lay['prods'][i]['stage'], lay['prods'][i]['name'])
            lj.workingDirectory = types.SimpleNamespace(output=[], path='/nonexistent/verif_c13/loop%d' % i,
                                                        outputSinceDate=lambda date: [])
            jobs.append(lj)
        self.all_jobs = jobs
        self.prod_states = []
        key = lambda x: 'stage%d.%s' % (x['stage'], x['name'])
        graph = networkx.DiGraph()
        for i in range(ncomp):
            # a living producer is RUNNING or in POSTMORTEM (its task exited and the controller is about to restart
            # it): either way the observer has to wait for it; a producer that is not alive is in a final state
            in_pm = (i + int(cfg.get('retries') or 0) + int(cfg.get('t0') or 0) // 1000) % 2 == 0
            ps = _ProdState(drv, i, in_pm)
            ps.notifyFinished = self.subjects[i]
            ps.specification = types.SimpleNamespace(reference=key(lay['prods'][i]))
            self.prod_states.append(ps)
            graph.add_node(key(lay['prods'][i]), componentInstance=self.all_jobs[i])
            if lay['prods'][i]['inst']:
                graph.nodes[key(lay['prods'][i])]['component'] = weakref.ref(ps)
        # unrelated components: alive for ever, never written to
        self.strangers = []
        for k, x in enumerate(lay['extra']):
            st = _Obj()
            st.isAlive = lambda: True
            st.state = 'running'
            st.notifyFinished = reactivex.subject.Subject()
            st.specification = types.SimpleNamespace(reference=key(x))
            sj = _Obj()
            sj.stageIndex = 0 if x['stage'] == OBS_STAGE else -1
            sj.isRepeat = True
            sj.identification = key(x)
            sj.workingDirectory = types.SimpleNamespace(output=[], path='/nonexistent/verif_c13/stranger%d' % k,
                                                        outputSinceDate=lambda date: [])
            st.job = sj
            self.strangers.append(st)
            graph.add_node(key(x), componentInstance=sj)
            if x['inst']:
                graph.nodes[key(x)]['component'] = weakref.ref(st)
        placeholders = {}
        datarefs = []
        for k, r in enumerate(lay['refs']):
            tail = ('/%s' % r['file'] if r.get('file') else '') + ':' + r['method']
            if r['via'] == 'loop':
                pid = 'stage%d.loop%d' % (OBS_STAGE, k)
                placeholders[pid] = {'latest': key(lay['prods'][r['to'][-1]]),
                                     'represents': [key(lay['prods'][i]) for i in r['to']]}
                datarefs.append(G.DataReference(pid + tail, stageIndex=OBS_STAGE))
            elif r['via'] == 'rel':
                datarefs.append(G.DataReference(lay['prods'][r['to'][0]]['name'] + tail, stageIndex=OBS_STAGE))
            else:
                datarefs.append(G.DataReference(key(lay['prods'][r['to'][0]]) + tail, stageIndex=OBS_STAGE))
        wfg = types.SimpleNamespace(graph=graph, _placeholders=placeholders,
                                    rootStorage=types.SimpleNamespace(instancePath='/nonexistent/verif_c13'))
        # the job's producers: the REAL Job.producerInstances over the same references
        self.job.workflowGraph = wfg
        self.job.componentSpecification = types.SimpleNamespace(componentDataReferences=datarefs)
        real_notify = self.eng.notify_all_producers_finished

        def notify():
            drv.eff[min(drv.k, len(drv.eff) - 1)].append('Notify')
            return real_notify()
        self.eng.notify_all_producers_finished = notify

        class _CS(_Obj):
            # the REAL properties, run on this duck-typed ComponentState
            producers = W.ComponentState.producers
            graph = W.ComponentState.graph
        cs = _CS()
        cs._finishedCalled = False
        cs.engine = self.eng
        cs.workflowGraph = wfg
        cs.log = logging.getLogger('verif.c13.cs')
        cs.specification = types.SimpleNamespace(reference='stage%d.%s' % (OBS_STAGE, OBS_NAME), componentDataReferences=datarefs)
        cs.repeatingObservable = None
        cs.repeatingDisposable = None
        cs._notifyProducersFinished = types.MethodType(W.ComponentState._notifyProducersFinished, cs)
        graph.add_node(cs.specification.reference, component=weakref.ref(cs), componentInstance=self.job)
        self.cs = cs

        def index_of(x, what):
            for i, ps in enumerate(what):
                if x is ps:
                    return i
            return None

        def idx_state(x):
            if x is cs:
                return OBS_IDX
            i = index_of(x, self.prod_states)
            if i is not None:
                return i
            k = index_of(x, self.strangers)
            return STRANGER_IDX + k if k is not None else STRANGER_IDX - 2

        def idx_job(x):
            if x is self.job:
                return OBS_IDX
            i = index_of(x, self.all_jobs)
            if i is not None:
                return i
            k = index_of(x, [st.job for st in self.strangers])
            return STRANGER_IDX + k if k is not None else STRANGER_IDX - 2
        # the two producer lists, as the implementation computes them (both are pure)
        lvl = cs.log.manager.disable
        logging.disable(logging.CRITICAL)
        try:
            try:
                self.impl_w = [idx_state(x) for x in cs.producers]
            except Exception as e:
                self.impl_w = None
                self.errors.append('producers:%s' % type(e).__name__)
            try:
                self.impl_pinst = [idx_job(x) for x in self.job.producerInstances]
            except Exception as e:
                self.impl_pinst = None
                self.errors.append('producerInstances:%s' % type(e).__name__)
        finally:
            logging.disable(lvl)
        if self.errors:
            return False
        saved = W.ComponentState.componentScheduler
        W.ComponentState.componentScheduler = reactivex.scheduler.ImmediateScheduler()
        try:
            W.ComponentState.stageIn(cs, stageData=False)
        except Exception as e:
            self.errors.append('stageIn:%s' % type(e).__name__)
            return False
        finally:
            W.ComponentState.componentScheduler = saved
        return True

    def run_case(self, cfg, steps):
        """cfg: dict(retries, has_prod, same_stage, prod_rep, check_out, has_delay, interval, t0[, prods])
        prods (optional): list of dict(same_stage, prod_rep), the observer's producers in order; without it there is
        one producer described by same_stage/prod_rep (none if has_prod is false)
        steps: list of dict(dt, evs, o) ; steps[0].dt is ignored (0), steps[0].evs happen before run().
        returns dict(obs=[...one per poll...], finished=bool, execs=[(launch, pf_at_launch, rc|None)], errors=[...])"""
        E, D = self.E, self.D
        drv = self
        if threading.active_count() > 50:
            raise RuntimeError('verif C13 driver: %d live threads - the engine under test is leaking threads'
                               % threading.active_count())
        self.now_ms = cfg['t0']
        plist = prod_list(cfg)
        self.los = [None] * len(plist)
        self.steps = steps
        self.k = 0
        self.obs = []
        self.errors = []
        self.execs = []
        self.actions = 0
        self.lasts = 0
        self.timer_cb = None
        self.timer_due = None
        self.timers = []                    # every reactivex.timer the engine subscribed to: (step, delay in seconds)
        self.notified = []                  # every delivery of the producers-finished notification
        self.timed = bool(cfg.get('timed'))  # the kill-delay timer expires by the clock, not when the script says so
        self.fired = []
        self.kills = []
        self.pending_ntf = False
        self.ntf_mid = []
        self.eff = [[] for _ in steps]      # what reached the engine, per step (for the property predicate)
        self.alive = None
        self.impl_w = None
        self.impl_pinst = None
        self.real = None
        self.wd_ops = None
        if cfg.get('real') is not None:
            try:
                return self._run_real(cfg, plist, steps)
            finally:
                self._real_cleanup()

        def mkprod(i, pc):
            prod = _Obj()
            prod.stageIndex = 0 if pc['same_stage'] else -1
            prod.isRepeat = pc['prod_rep']
            prod.identification = 'stage0.prod%d' % i

            class WD(object):
                # non-empty iff the producer has written output
                output = property(lambda s: (['out.dat'] if drv.los[i] is not None else []))
            wd = WD()
            wd.path = '/nonexistent/verif_c13/prod%d' % i
            wd.outputSinceDate = lambda date: (['out.dat'] if (drv.los[i] is not None and
                                                              EPOCH + _dt.timedelta(milliseconds=drv.los[i]) > date) else [])
            prod.workingDirectory = wd
            return prod

        stagein = cfg.get('alive0') is not None
        self.job_prods = [mkprod(i, pc) for i, pc in enumerate(plist)]

        class _Job(_Obj):
            pass
        if stagein:
            # the REAL Job.producerInstances property (over the graph _stage_in builds)
            _Job.producerInstances = D.Job.producerInstances
        j = _Job()
        self.job = j
        j.reference = 'stage0.obs'
        j.name = 'obs'
        j.type = 'local'
        j.directory = '/nonexistent/verif_c13/obs'
        j.workingDirectory = types.SimpleNamespace(path=j.directory, directory=j.directory)
        j.stageIndex = 0
        j.workflowGraph = types.SimpleNamespace(rootStorage=types.SimpleNamespace(instancePath='/nonexistent/verif_c13'))
        j.customAttributes = {}
        j.executable = 'ls'
        j.arguments = ''
        j.isRepeat = True
        j.isMigratable = False
        j.identification = 'stage0.obs'
        j.workflowAttributes = {'repeatRetries': cfg['retries'], 'optimizer': {'disable': True}, 'isRepeat': True,
                                'restartHookOn': [], 'shutdownOn': [], 'restartHookFile': None}
        j.repeatInterval = lambda: cfg['interval'] / 1000.0
        if not stagein:
            j.producerInstances = self.job_prods
        var = {}
        if cfg['has_delay']:
            var['kill-after-producers-done-delay'] = delay_raw(cfg)
        if not cfg['check_out']:
            var['check-producer-output'] = 'false'
        j.flowir_description = {'variables': var}
        # the REAL Job.producersHaveOutputSinceDate, run on the duck-typed job
        j.producersHaveOutputSinceDate = types.MethodType(D.Job.producersHaveOutputSinceDate, j)

        eng = E.RepeatingEngine(j, taskGenerator=self._gen())
        eng.emit_now = lambda *a, **k: None
        self.eng = eng
        self._real_notify = eng.notify_all_producers_finished
        eng.notify_all_producers_finished = self._notify
        return self._drive(cfg, plist, steps, stagein)

    def _gen(self):
        drv = self

        def gen(job, outputFile=None, errorFile=None):
            o = drv.steps[drv.k]['o']
            if o['fail']:
                drv.execs.append((drv.now_ms, bool(drv.eng._producers_are_finished), None, list(drv.los), drv.k))
                raise RuntimeError('verif: launch fails')
            t = FakeTask(drv, o)
            drv.execs.append((drv.now_ms, bool(drv.eng._producers_are_finished), o['rc'], list(drv.los), drv.k))
            return t
        return gen

    # ------------------------------------------------------------------ real producers
    def _run_real(self, cfg, plist, steps):
        """cfg['real'] (one entry per producer, see real_refs): the observer and its producers are REAL
        experiment.model.data.Job objects of an experiment instantiated from a scratch package; the producers' working
        directories are REAL JobWorkingDirectory objects on disk, staged in by the REAL Job.stageIn (StageReference
        copies / links the referenced files); a producer's write creates a file in its directory.  File timestamps follow
        the fake clock (os.utime).  Engine.canConsume / Job.producersHaveOutputSinceDate / Job.producerInstances /
        WorkingDirectory.output / outputSinceDate are all the real ones."""
        import tempfile
        import uuid
        import experiment.model.storage as ST
        E, D = self.E, self.D
        assert len(cfg['real']) == len(plist) and plist, cfg
        self.real = cfg['real']
        self.tmp = tempfile.mkdtemp(prefix='verif_c13_')
        self.wd_ops = [[] for _ in plist]       # per producer: what happened to its directory + what it reported
        self.wd_bad = []
        self.staged = [False] * len(plist)
        self.nwrites = [0] * len(plist)
        self.made = [dict() for _ in plist]     # per producer: what it created itself (+ its copyout references): name -> time
        lvl = logging.root.manager.disable
        logging.disable(logging.CRITICAL)
        try:
            absdir = os.path.join(self.tmp, 'ext')
            os.makedirs(absdir)
            for f in DATA_FILES:
                with open(os.path.join(absdir, f), 'w') as fh:
                    fh.write('outside the instance\n')
            pp = os.path.join(self.tmp, '%s.package' % uuid.uuid4())
            os.makedirs(os.path.join(pp, 'conf'))
            os.makedirs(os.path.join(pp, 'data'))
            with open(os.path.join(pp, 'conf', 'flowir_package.yaml'), 'w') as fh:
                fh.write(real_flowir(cfg, absdir))
            for f in DATA_FILES:
                with open(os.path.join(pp, 'data', f), 'w') as fh:
                    fh.write('an input\n')
            try:
                pkg = ST.ExperimentPackage.packageFromLocation(pp)
                exp = D.Experiment.experimentFromPackage(pkg, location=self.tmp)
                if cfg.get('validate', True):
                    exp.validateExperiment(checkExecutables=False)
                self.exp = exp
                j = exp.findJob(REAL_OBS_STAGE, 'obs')
                self.job = j
                self.job_prods = [exp.findJob(REAL_OBS_STAGE if pc['same_stage'] else 1, 'prod%d' % i)
                                  for i, pc in enumerate(plist)]
                # the upstream component has produced its files
                up = exp.findJob(0, 'up')
                for f in UP_FILES:
                    with open(os.path.join(up.workingDirectory.path, f), 'w') as fh:
                        fh.write('upstream output\n')
                pinst = list(j.producerInstances)
                if [id(x) for x in pinst] != [id(x) for x in self.job_prods]:
                    self.errors.append('real:producerInstances')
                if [bool(x.isRepeat) for x in pinst] != [pc['prod_rep'] for pc in plist]:
                    self.errors.append('real:isRepeat')
                eng = E.RepeatingEngine(j, taskGenerator=self._gen())
                eng.emit_now = lambda *a, **k: None
                self.eng = eng
                self._real_notify = eng.notify_all_producers_finished
                eng.notify_all_producers_finished = self._notify
            except Exception as e:
                self.errors.append('real-setup:%s:%s' % (type(e).__name__, str(e)[:1500]))
        finally:
            logging.disable(lvl)
        if self.errors:
            return {'obs': [], 'finished': False, 'execs': [], 'errors': list(self.errors), 'nsteps': 0, 'fired': [],
                    'kills': [], 'los': list(self.los), 'eff': [list(e) for e in self.eff], 'w': None, 'pinst': None,
                    'wd_ops': self.wd_ops, 'wd_bad': self.wd_bad}
        # every producer that the script does not stage in later is staged in before the observer starts
        # (a producer marked late is staged in by the script's Stg<i> event - or by its first write)
        for i in range(len(plist)):
            if not self.real[i].get('late'):
                self._real_stage_in(i)
        res = self._drive(cfg, plist, steps, False)
        res['wd_ops'] = self.wd_ops
        res['wd_bad'] = self.wd_bad
        return res

    def _real_cleanup(self):
        import shutil
        if getattr(self, 'tmp', None):
            shutil.rmtree(self.tmp, ignore_errors=True)
            self.tmp = None
        self.exp = None

    def _ts(self):
        return (EPOCH + _dt.timedelta(milliseconds=self.now_ms)).timestamp()

    def _real_stage_in(self, i):
        if i >= len(self.job_prods) or self.staged[i]:
            return
        self.staged[i] = True
        prod = self.job_prods[i]
        lvl = logging.root.manager.disable
        logging.disable(logging.CRITICAL)
        try:
            prod.stageIn()
        except Exception as e:
            self.errors.append('Job.stageIn:%s:%s' % (type(e).__name__, str(e)[:1500]))
            return
        finally:
            logging.disable(lvl)
        d = prod.workingDirectory.path
        ins, outs = real_staged(self.real[i])
        if sorted(os.listdir(d)) != sorted(set(ins + outs)):
            self.errors.append('Job.stageIn: staged %s, expected %s' % (sorted(os.listdir(d)), sorted(set(ins + outs))))
        for f in os.listdir(d):
            os.utime(os.path.join(d, f), (self._ts(), self._ts()))     # (through a link: the file it leads to)
        self.wd_ops[i].append(('stage', list(ins), list(outs), self.now_ms))
        if outs:
            # copyout references are output of the component by design: it has output from now on
            self.los[i] = self.now_ms
            for n in outs:
                self.made[i][n] = self.now_ms

    def _real_write(self, i):
        """producer i creates (or rewrites) one output file in its working directory"""
        if not self.staged[i]:
            self._real_stage_in(i)       # a component runs only after it has been staged in
        names = ['out.dat', 'res.csv', 'log.txt']
        name = names[(self.nwrites[i] // 2) % len(names)]       # every second write rewrites the previous file
        self.nwrites[i] += 1
        path = os.path.join(self.job_prods[i].workingDirectory.path, name)
        with open(path, 'a') as fh:
            fh.write('output at %d\n' % self.now_ms)
        os.utime(path, (self._ts(), self._ts()))
        self.wd_ops[i].append(('put', name, self.now_ms))
        self.made[i][name] = self.now_ms

    def _real_observe(self):
        """what the REAL working directory of each producer reports as output (names) and as output since the date
        the engine asks about (lastLaunched)"""
        date = self.eng.lastLaunched
        ll = int(round((date - EPOCH).total_seconds() * 1000))
        for i, prod in enumerate(self.job_prods):
            try:
                out = sorted(os.path.basename(x) for x in prod.workingDirectory.output)
                since = sorted(os.path.basename(x) for x in prod.workingDirectory.outputSinceDate(date))
            except Exception as e:
                self.errors.append('WorkingDirectory.output:%s' % type(e).__name__)
                continue
            self.wd_ops[i].append(('obs', ll, out, since))
            want = sorted(self.made[i])
            want_since = sorted(n for n, t in self.made[i].items() if t > ll)
            if (out != want or since != want_since) and len(self.wd_bad) < 3:
                self.wd_bad.append({'producer': i, 'poll': self.k, 'output': out, 'made': want, 'since_ms': ll,
                                    'output_since': since, 'made_since': want_since})

    def _drive(self, cfg, plist, steps, stagein):
        drv = self
        eng = self.eng
        if stagein and not self._stage_in(cfg, plist):
            # the producer list could not be built / stageIn raised: nothing runs
            return {'obs': [], 'finished': False, 'execs': [], 'errors': list(self.errors), 'nsteps': 0, 'fired': [],
                    'kills': [], 'los': list(self.los), 'eff': [list(e) for e in self.eff], 'w': self.impl_w,
                    'pinst': self.impl_pinst}

        real_cm = self.M.CreateMonitor

        def cm(interval, action, cancelEvent=None, lastAction=True, name=None, **k):
            def rec_action(last):
                if last:
                    drv.lasts += 1
                else:
                    drv.actions += 1
                return action(last)
            return real_cm(interval, rec_action, cancelEvent=cancelEvent, lastAction=lastAction, name=name, **k)
        self.M.CreateMonitor = cm
        finished = False
        try:
            for ev in steps[0]['evs']:
                self._apply(ev)
            self.pending_ntf = bool(steps[0]['o'].get('ntf'))
            eng.run()
            finished = True
            if self.pending_ntf:
                self.pending_ntf = False
                self.eng.notify_all_producers_finished()
            self._observe()
        except StopDriving:
            pass
        finally:
            self.M.CreateMonitor = real_cm
        return {'obs': self.obs, 'finished': finished, 'execs': list(self.execs), 'errors': list(self.errors),
                'nsteps': len(self.obs), 'fired': list(self.fired), 'kills': list(self.kills), 'los': list(self.los), 'eff': [list(e) for e in self.eff],
                'w': self.impl_w, 'pinst': self.impl_pinst, 'notified': list(self.notified), 'timers': list(self.timers),
                'ntf_mid': list(self.ntf_mid)}
