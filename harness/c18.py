"""C18 — Staging and deployment never write outside their target directory.

Implementation driven (all real code, in a throw-away sandbox tree under tempfile.mkdtemp()):
  * experiment.model.data.Job.stageIn (called on a duck-typed job) -> experiment.model.data.StageReference
    for extract / copy / link / copyout references: hostile and benign tar archives are written with
    tarfile, then staged into <sandbox>/t/work;
  * experiment.model.frontends.flowir.Manifest (validate) and
    experiment.model.storage.ExperimentPackage.expandPackageToDirectory (manifest driven population of a
    new instance directory <sandbox>/loc/x.instance), also with source folders generated per case that hold
    symbolic links (any depth, any kind) and manifest keys nested below them.

  * sequences of references (copy / copyout / link / extract) staged one after the other into the SAME working
    directory by Job.stageIn or by repeated StageReference calls, with colliding and nested names and with links
    already in the directory (Path.Model.stage_seq).

  * several COMPONENTS staged by this one process, each into its own working directory (<sandbox>/t/work, t/wb, t/wc),
    referencing the SAME archive file (written once, same path / mtime / size; also reached through a symbolic link, a
    hard link or a copy2 of it), and one component that references an archive again after its directory changed: every
    component is compared with Path.Model.stage_seq over what ITS directory held (Path.Model.stage_components), its
    outside listing covers the directories of the other components.

Predicate (the property as stated): a recursive listing (names, kinds, sizes, contents digest, link
targets) of everything in the sandbox OUTSIDE the target directory is the same before and after;
every input that lexically leaves the target (member name, link target, manifest key) is refused, and
whatever is raised is a staging / packaging error; no manifest target is populated through a link of the
instance.  Correspondence: accept/reject of the coded checks, the set of entries created in the working
directory and, for deployments, completion + every entry of the instance with its kind are compared with
coq/Path/Model.v (tar_check, created, validate, deploy_ok, deploy_fs)."""
import hashlib
import io
import json
import os
import shutil
import tarfile
import tempfile
import types

from common import cstr, cbool, clist, copt, cpair, cnat

PROP = 'C18'
COQ_DIR = 'Path'
ASSUMPTIONS = [
    'tarfile (member parsing and extraction), shutil.copy/copytree, os.symlink and the operating system are trusted: '
    'the model says WHERE each member / manifest entry is created, the sandbox listing checks it on every case',
    'working directories that already hold symbolic links: the links are made by the harness and given to the model as '
    '(path, lexically normalised target); accept/reject is compared with Path.Model.tar_check_pre, the created entries are '
    'checked by the sandbox listing only',
    'migrated components: Job.stageIn is run on a duck-typed migrated job; the statement checked (and proved, C18_migrated) is the '
    'designed behaviour — the working directory is removed and one link appears in the stage directory — not the letter of C18',
    'sequences of references into one working directory: the real Job.stageIn (which stages copyout references last and '
    'stops at the first failure) / StageReference called once per reference; what the directory holds before and after '
    '(every entry, kind, lexically normalised link target) is read by the harness and compared with Path.Model.stage_seq; '
    'what tarfile does when an accepted member meets an existing entry of another kind is not modelled (step marked inexact)',
    'several components in one process: staged one after the other (not concurrently) by this process, which also ran every '
    'earlier case — whatever the staging code keeps at module level is carried from case to case, as in a long-lived '
    'workflow process; the archive files of a multi-component case are written once and not touched again',
    'Job.stageIn is driven with a duck-typed job (type, references, working directory); the DataReference objects are '
    'duck-typed (method, resolve(), stringRepresentation)',
    'ExperimentPackage is built over a duck-typed configuration (location, isExperimentPackageDirectory, manifestData)',
    'source folders of manifest entries: their content (files, directories, symbolic links at any depth with the text and '
    'what they lead to) is read from the sandbox by the harness and given to the model (Path.Model.deploy_fs); after every '
    'deployment EVERY entry of the instance directory, with its kind (directory / file / link), is compared with the '
    'model, so that shutil.copytree follows the links of a source folder is checked, not trusted; source folders with '
    'link loops and special files are not generated',
]
HEADER = 'Require Import V.Path.Model.\nOpen Scope string_scope.'
SB = '$SB'
REFUSED = 'would be extracted outside of destination'


# ------------------------------------------------------------------ sandbox
class Sandbox(object):
    """<root>/t/work (staging target) <root>/t/work2 (shares a character prefix) <root>/out (outside)
    <root>/pkg (package: wf.yaml, src/, src2/, myconf/) <root>/loc (where instances are created)"""

    def __init__(self):
        self.root = os.path.realpath(tempfile.mkdtemp(prefix='verif_c18_'))
        self.canon = os.path.join(os.path.dirname(self.root), 'sb')     # same depth as the real one
        for d in ('t/work', 't/work2', 'out', 'pkg/src/deep', 'pkg/src2', 'pkg/myconf', 'loc', 'arch', 'srcs/prod/sub', 'srcs/work'):
            os.makedirs(os.path.join(self.root, d))
        for f, c in (('out/secret.txt', 'secret'), ('t/work2/keep.txt', 'keep'), ('pkg/src/f.txt', '1'),
                     ('pkg/src/deep/g.txt', '22'), ('pkg/src2/h.txt', '333'), ('pkg/myconf/extra.yaml', 'a: 1\n'),
                     ('pkg/wf.yaml', 'components: []\n'), ('srcs/prod/out.txt', 'data'), ('srcs/prod/sub/x.dat', 'xx'),
                     ('srcs/a.b.txt', 'ab'), ('srcs/..hidden', 'h')):
            with open(os.path.join(self.root, f), 'w') as fh:
                fh.write(c)
        os.symlink('prod', os.path.join(self.root, 'srcs/plink'))
        # producers whose outputs have the SAME names (sequences of references into one working directory): prod2/out.txt
        # (file), prod2/sub/ (holds a link leading outside and one leading inside), prod3/out.txt/ (a DIRECTORY of that
        # name), prod3/sub (a FILE of that name)
        for d in ('srcs/prod2/sub', 'srcs/prod3/out.txt'):
            os.makedirs(os.path.join(self.root, d))
        for f, c in (('srcs/prod2/out.txt', 'two'), ('srcs/prod2/sub/y.dat', 'yy'), ('srcs/prod3/sub', 'a file'),
                     ('srcs/prod3/out.txt/part', 'p'), ('srcs/prod3/other.txt', 'o')):
            with open(os.path.join(self.root, f), 'w') as fh:
                fh.write(c)
        os.symlink(os.path.join(self.root, 'out'), os.path.join(self.root, 'srcs/prod2/sub/lnk'))
        os.symlink('y.dat', os.path.join(self.root, 'srcs/prod2/sub/yl'))
        self.work = os.path.join(self.root, 't/work')
        self.inst = os.path.join(self.root, 'loc/x.instance')

    def real(self, s):
        return s.replace(SB, self.root)

    def canonical(self, s):
        return s.replace(self.root, self.canon).replace(SB, self.canon)

    def close(self):
        shutil.rmtree(self.root, ignore_errors=True)


class Pool(object):
    """one sandbox tree reused while nothing outside the target changed (the machine is shared: creating the
    tree for every case dominated the run time); rebuilt after any case that did change something outside"""

    def __init__(self, which):
        self.which = which
        self.sb = None
        self.before = None

    def target(self, sb):
        return sb.work if self.which == 'work' else sb.inst

    def acquire(self):
        if self.sb is None:
            self.sb = Sandbox()
            self.before = None
        sb = self.sb
        for t in (sb.work, sb.inst):
            if os.path.islink(t):
                os.unlink(t)
            else:
                shutil.rmtree(t, ignore_errors=True)
        os.makedirs(sb.work)
        return sb

    def snapshot(self, sb):
        """listing of everything outside the target, taken after the case's own preparation"""
        self.before = listing(sb.root, exclude=self.target(sb))
        return self.before

    def release(self, sb, changed):
        if changed:
            sb.close()
            self.sb = None

    def close(self):
        if self.sb is not None:
            self.sb.close()
            self.sb = None


POOLS = {'work': Pool('work'), 'inst': Pool('inst')}


def listing(root, exclude=None):
    """recursive listing without following links: {relative path: description}"""
    out = {}
    stack = [root]
    while stack:
        d = stack.pop()
        try:
            it = list(os.scandir(d))
        except OSError:
            continue
        for e in it:
            p = e.path
            if exclude is not None and (p == exclude or p.startswith(exclude + os.sep)):
                continue
            rel = os.path.relpath(p, root)
            if e.is_symlink():
                out[rel] = 'link:' + os.readlink(p)
            elif e.is_dir(follow_symlinks=False):
                out[rel] = 'dir'
                stack.append(p)
            else:
                st = e.stat(follow_symlinks=False)
                try:
                    with open(p, 'rb') as fh:
                        dg = hashlib.md5(fh.read(65536)).hexdigest()[:8]
                except OSError:
                    dg = '?'
                out[rel] = 'file:%d:%d:%s' % (st.st_size, st.st_nlink, dg)
    return out


def diff_listing(a, b):
    ch = []
    for k in sorted(set(a) | set(b)):
        if a.get(k) != b.get(k):
            ch.append('%s: %s -> %s' % (k, a.get(k), b.get(k)))
    return ch


# ------------------------------------------------------------------ duck-typed references / job
class Ref(object):
    def __init__(self, method, path):
        self.method = method
        self._path = path
        self.stringRepresentation = 'producer:%s' % method
        self.producerIdentifier = types.SimpleNamespace(identifier='stage0.producer')

    def resolve(self, graph):
        return self._path

    def __repr__(self):
        return self.stringRepresentation


class WorkDir(object):
    def __init__(self, path):
        self.path = path
        self.updated = 0

    def updateInputs(self):
        self.updated += 1


def stage(path, refs, via_job):
    """run the real staging code; returns (exception or None)"""
    import experiment.model.data as D
    wd = WorkDir(path)
    try:
        if via_job:
            job = types.SimpleNamespace(
                cid=types.SimpleNamespace(identifier='stage1.consumer'), type='local', isMigrated=False,
                workingDirectory=wd, workflowGraph=None, isStaged=False,
                componentSpecification=types.SimpleNamespace(dataReferences=list(refs), inputDataReferences=list(refs),
                                                             componentDataReferences=[], producers={}))
            job.__str__ = lambda: 'job'
            D.Job.stageIn(job, verbose=False)
            if not job.isStaged:
                raise RuntimeError('Job.stageIn returned without staging')
        else:
            for r in refs:
                D.StageReference(r, wd, None)
        return None
    except BaseException as e:  # noqa
        return e


# ------------------------------------------------------------------ archives
def write_archive(path, members, fmt):
    with tarfile.open(path, 'w', format=fmt) as t:
        for name, kind, link in members:
            ti = tarfile.TarInfo(name)
            ti.mode = 0o755 if kind == 'dir' else 0o644
            if kind == 'dir':
                ti.type = tarfile.DIRTYPE
                t.addfile(ti)
            elif kind == 'sym':
                ti.type = tarfile.SYMTYPE
                ti.linkname = link
                t.addfile(ti)
            elif kind == 'hard':
                ti.type = tarfile.LNKTYPE
                ti.linkname = link
                t.addfile(ti)
            else:
                data = ('content of %s' % name).encode()[:40]
                ti.size = len(data)
                t.addfile(ti, io.BytesIO(data))


def read_members(path):
    """the members as StageReference sees them (tarfile's own name processing is trusted)"""
    out = []
    with tarfile.open(path) as t:
        for f in t.getmembers():
            if f.issym():
                out.append((f.name, 'sym', f.linkname))
            elif f.islnk():
                out.append((f.name, 'hard', f.linkname))
            elif f.isdir():
                out.append((f.name, 'dir', ''))
            else:
                out.append((f.name, 'file', ''))
    return out


def lexical_escape(dest, members):
    """independent oracle: does some member name / link target leave dest after normalisation"""
    tgt = dest + os.sep
    for name, kind, link in members:
        p = os.path.normpath(os.path.join(dest, name))
        if not (p + os.sep).startswith(tgt):
            return True
        if kind == 'sym':
            q = os.path.normpath(os.path.join(os.path.dirname(p), link))
            if not (q + os.sep).startswith(tgt):
                return True
        if kind == 'hard':
            q = os.path.normpath(os.path.join(dest, link))
            if not (q + os.sep).startswith(tgt):
                return True
    return False


def regular_archive(dest, members):
    """no member lies below or on top of a non-directory member and hard links point at file members: for
    other archives tarfile silently skips what it cannot create (ExtractError is not fatal at errorlevel 1)"""
    paths = [os.path.normpath(os.path.join(dest, n)) for n, _, _ in members]
    for i, (n, k, l) in enumerate(members):
        for j, (n2, k2, l2) in enumerate(members):
            if i != j and (k2 != 'dir' or k != 'dir') and (paths[i] + os.sep).startswith(paths[j] + os.sep) and \
                    (k2 != 'dir' or paths[i] == paths[j]):
                return False
        if k == 'hard':
            t = os.path.normpath(os.path.join(dest, l))
            if not any(paths[j] == t and members[j][1] == 'file' for j in range(len(members)) if j != i):
                return False
    return True


NAMES_OK = ['x.txt', 'a/x.txt', 'a/b/y.dat', './z', 'dir/', 'a/', 'conf/c.yaml', 'w' * 120 + '/long.txt', 'a/b/', 'q q']
NAMES_BAD = ['../escaped.txt', '../../x', 'a/../../x', 'a/b/../../../x', '../work2/x', '../work/../work2/keep.txt',
             SB + '/out/abs.txt', SB + '/t/work2/abs.txt', '/' + SB + '/t/work/dbl.txt', '../../out/secret.txt',
             './../x', 'a/./../../y', '..', '../', 'a/../..', '../' + 'v' * 110 + '/x']
NAMES_ODD = ['a/../n.txt', SB + '/t/work/abs_in.txt', './a/./m.txt', 'a//d.txt', '.', './', 'a/b/../c.txt',
             '//' + SB + '/t/work/t3.txt']
SYM_IN = ['x.txt', 'a', '../x.txt', './a/b', '.', 'a/../x.txt', SB + '/t/work/a', 'nowhere']
SYM_OUT = ['..', '../..', '../../out', SB + '/out', '/', '../work2', 'a/../../..', SB + '/t/work2', '../../out/secret.txt']


def gen_benign(rng):
    ms = []
    dirs = rng.sample(['a', 'a/b', 'dir', 'conf', 'lib'], rng.randint(0, 3))
    dirs.sort()
    pre = rng.choice(['', './', ''])
    if pre and rng.random() < 0.5:
        ms.append((pre, 'dir', ''))
    for d in dirs:
        ms.append((pre + d, 'dir', ''))
    files = []
    for i in range(rng.randint(1, 4)):
        d = rng.choice(dirs + ['']) if dirs else ''
        n = (d + '/' if d else '') + rng.choice(['f', 'g', 'data', 'out']) + str(i) + rng.choice(['.txt', '', '.dat'])
        files.append(n)
        ms.append((pre + n, 'file', ''))
    if rng.random() < 0.5:
        d = rng.choice(dirs) if dirs else ''
        tgt = rng.choice(files)
        rel = os.path.relpath(tgt, d or '.')
        ms.append((pre + (d + '/' if d else '') + 'lnk%d' % rng.randint(0, 9), 'sym', rel))
    if rng.random() < 0.4:
        ms.append((pre + 'hard%d' % rng.randint(0, 9), 'hard', rng.choice(files)))
    return ms


def gen_hostile(rng):
    ms = gen_benign(rng) if rng.random() < 0.7 else []
    k = rng.choice(['name', 'name', 'name', 'symout', 'symthrough', 'hardout', 'dup', 'symin_through', 'dotdot_via_link',
                    'odd', 'odd', 'symin', 'chain'])
    pos = rng.randint(0, len(ms))
    new = []
    if k == 'name':
        new = [(rng.choice(NAMES_BAD), rng.choice(['file', 'file', 'dir']), '')]
    elif k == 'odd':
        new = [(rng.choice(NAMES_ODD), 'file', '')]
    elif k == 'symin':
        new = [(rng.choice(['s1', 'a/s2', 'conf/s3']), 'sym', rng.choice(SYM_IN))]
    elif k == 'symout':
        new = [(rng.choice(['lnk', 'a/lnk', 'x/y/lnk']), 'sym', rng.choice(SYM_OUT))]
    elif k == 'symthrough':
        l = rng.choice(['lnk', 'a/lnk'])
        new = [(l, 'sym', rng.choice(SYM_OUT)), (l + '/' + rng.choice(['f.txt', 'secret.txt', 'd/e.txt']), 'file', '')]
        if rng.random() < 0.3:
            new.reverse()
    elif k == 'symin_through':
        new = [('sub', 'dir', ''), ('l', 'sym', 'sub'), ('l/x.txt', 'file', '')]
    elif k == 'dotdot_via_link':
        new = [('sub', 'dir', ''), ('sub/l', 'sym', '..'), (rng.choice(['sub/l/../x.txt', 'sub/l/../../x.txt', 'sub/l/x.txt']), 'file', '')]
    elif k == 'chain':
        new = [('sub', 'dir', ''), ('sub/l', 'sym', '..'), ('m', 'sym', 'sub/l/..'),
               (rng.choice(['m/x.txt', 'm/work2/keep.txt', 'm/out/secret.txt']), 'file', '')]
        if rng.random() < 0.4:
            new[3] = ('h', 'hard', rng.choice(['sub/l/work2/keep.txt', 'm/work2/keep.txt']))
            new.append(('h', 'file', ''))
    elif k == 'hardout':
        new = [('h', 'hard', rng.choice(['../../out/secret.txt', SB + '/out/secret.txt', '../work2/keep.txt', 'a/../../work2/keep.txt']))]
        if rng.random() < 0.5:
            new.append(('h', 'file', ''))
    elif k == 'dup':
        new = [('d1', 'sym', rng.choice(SYM_IN + SYM_OUT)), ('d1', rng.choice(['file', 'dir', 'sym']), 'x.txt')]
    ms[pos:pos] = new
    return ms


SMALL_NAMES = ['x', 'a/x', '../x', 'a/../x', 'a/../../x', SB + '/t/work/x', SB + '/out/x', 'l/x', 'l', '.', '../work2/x', 'a']
SMALL_KINDS = [('file', ''), ('dir', ''), ('sym', '..'), ('sym', 'a'), ('sym', '../..'), ('sym', SB + '/out'),
               ('hard', 'x'), ('hard', '../../out/secret.txt')]


PRE_SETS = [
    [('prod', SB + '/out')], [('prod', SB + '/srcs/prod')], [('inl', 'a')], [('f.txt', SB + '/out/secret.txt')],
    [('a', 'l'), ('sub', SB + '/out')],                                  # F18e
    [('a', SB + '/t/work/l'), ('sub', SB + '/out')],
    [('a', 'l'), ('p', SB + '/pkg/src/deep')],
    [('d1/lnk', SB + '/out')], [('d1/up', '..')], [('d1/d2/lnk', '../../..')],
    [('prod', SB + '/out'), ('inl', 'real')], [('loop', 'loop')], [('x', 'y'), ('y', 'x')],
    [('back', SB + '/t/work')], [('sib', '../work2')],
]


def gen_pre(rng):
    pre = rng.choice(PRE_SETS)
    names = [r for r, _ in pre]
    n = rng.choice(names)
    pool = [(n + '/new.txt', 'file', ''), (n, 'file', ''), (n, 'dir', ''), (n + '/secret.txt', 'file', ''), ('other.txt', 'file', ''),
            (n, 'sym', 'other.txt'), (n + '/s', 'sym', 'x'), ('h', 'hard', n + '/secret.txt'), ('h', 'hard', n),
            ('l', 'sym', 'sub'), ('l', 'sym', 'p/..'), ('a/x.txt', 'file', ''), ('real', 'dir', ''), ('real/f', 'file', ''),
            ('d1', 'dir', ''), ('d1/ok.txt', 'file', ''), ('d1/d2/ok.txt', 'file', ''), (n + 'x/new.txt', 'file', ''),
            ('./' + n + '/./deep/new.txt', 'file', ''), ('keep.txt', 'file', ''), (SB + '/t/work/' + n + '/abs.txt', 'file', ''),
            ('l', 'sym', 'real'), ('work2', 'sym', n)]
    ms = [('a0', 'dir', '')] if rng.random() < 0.3 else []
    for m in rng.sample(pool, rng.randint(1, 3)):
        ms.append(m)
    return pre, ms


CORPUS_PRE = [
    ([('a', 'l'), ('sub', SB + '/out')], [('l', 'sym', 'sub'), ('a/x.txt', 'file', '')]),                    # F18e
    ([('a', SB + '/t/work/l'), ('sub', SB + '/out')], [('l', 'sym', 'sub'), ('a/x.txt', 'file', '')]),
    ([('a', 'l'), ('p', SB + '/pkg/src/deep')], [('l', 'sym', 'p/..'), ('a/x.txt', 'file', '')]),
    ([('prod', SB + '/out')], [('a', 'dir', ''), ('prod/new.txt', 'file', '')]),
    ([('prod', SB + '/out')], [('prod', 'file', '')]),
    ([('f.txt', SB + '/out/secret.txt')], [('f.txt', 'file', '')]),
    ([('prod', SB + '/out')], [('h', 'hard', 'prod/secret.txt'), ('h', 'file', '')]),
    ([('d1/lnk', SB + '/out')], [('d1/lnk/x.txt', 'file', '')]),
    ([('prod', SB + '/out')], [('a', 'dir', ''), ('a/b.txt', 'file', ''), ('s', 'sym', 'prod'), ('prodx/new.txt', 'file', '')]),
]


def cmember(m):
    name, kind, link = m
    k = {'file': 'KFile', 'dir': 'KDir'}.get(kind)
    if kind == 'sym':
        k = '(KSym %s)' % cstr(link)
    elif kind == 'hard':
        k = '(KHard %s)' % cstr(link)
    return cpair(cstr(name), k)


def csegs(p):
    return clist([s for s in p.split('/') if s != ''], cstr)


def pre_through_outside(work, pre_links, members):
    """independent oracle for working directories that already hold links: some member (or hard-link target) is, or lies
    below, an existing link that leads out of the working directory"""
    tgt = work + os.sep
    for rel, _ in pre_links:
        lp = os.path.join(work, rel)
        if (os.path.realpath(lp) + os.sep).startswith(tgt):
            continue
        for name, kind, link in members:
            paths = [os.path.normpath(os.path.join(work, name))]
            if kind == 'hard':
                paths.append(os.path.normpath(os.path.join(work, link)))
            if any((q + os.sep).startswith(lp + os.sep) for q in paths):
                return True
    return False


def run_tar_case(ctx, raw_members, via_job, pre_link=None, fmt=tarfile.GNU_FORMAT, label='gen'):
    """one archive staged into a fresh sandbox; returns the Coq case term or None.  pre_link: links made in the working
    directory before staging, [(path relative to the working directory, target)]"""
    if pre_link is not None and pre_link and isinstance(pre_link[0], str):
        pre_link = [tuple(pre_link)]
    pool = POOLS['work']
    sb = pool.acquire()
    changed = True
    try:
        members = [(sb.real(n), k, sb.real(l)) for (n, k, l) in raw_members]
        arch = os.path.join(sb.root, 'arch', 'a.tar')
        write_archive(arch, members, fmt)
        seen = read_members(arch)
        pre_model = []
        for rel, tgt in (pre_link or []):
            lp = os.path.join(sb.work, rel)
            if not os.path.isdir(os.path.dirname(lp)):
                os.makedirs(os.path.dirname(lp))
            os.symlink(sb.real(tgt), lp)
            pre_model.append((sb.canonical(lp), sb.canonical(os.path.normpath(os.path.join(os.path.dirname(lp), sb.real(tgt))))))
        through_out = pre_through_outside(sb.work, pre_link or [], seen)
        before = pool.snapshot(sb)
        exc = stage(sb.work, [Ref('extract', arch)], via_job)
        after = listing(sb.root, exclude=sb.work)
        changed = before != after
        canon = {'members': [[sb.canonical(n), k, sb.canonical(l)] for (n, k, l) in seen], 'via_job': via_job,
                 'pre_link': [[r, sb.canonical(sb.real(t))] for r, t in pre_link] if pre_link is not None else None,
                 'dest': sb.canonical(sb.work)}
        escapes = lexical_escape(sb.work, seen)
        ctx.case(canon, nontrivial=len(seen) >= 1 and (escapes or any(k in ('sym', 'hard') for _, k, _ in seen)
                                                       or any('..' in n.split('/') or n.startswith('/') for n, _, _ in seen)))
        ctx.count('tar:' + label)
        ctx.count('tar:members=%d' % min(len(seen), 6))
        cls = []
        # ---- predicate
        ch = diff_listing(before, after)
        if ch:
            ctx.fail(canon, 'extracting an archive changed something outside the working directory: %s' % ch[:3], cls)
        ename = type(exc).__name__ if exc is not None else None
        if exc is not None and ename != 'DataReferenceCouldNotStageError':
            # a malformed but harmless archive (e.g. a hard link to a member that does not exist: KeyError from tarfile)
            # is not an offending input in the sense of the property
            ctx.count('tar:other-exception:' + ename)
            if escapes:
                ctx.fail(canon, 'an offending archive was rejected with %s instead of a staging error' % ename, cls)
        if escapes and exc is None:
            ctx.fail(canon, 'an archive with a member or link target outside the working directory was not refused', cls)
        refused = exc is not None and REFUSED in str(exc)
        accepted = not refused
        ctx.count('tar:accepted' if exc is None else ('tar:refused' if refused else 'tar:os-error'))
        if pre_link is not None:
            ctx.count('tar:pre-links=%d' % len(pre_link))
            ctx.count('tar:pre-links:' + ('accepted' if exc is None else ('refused' if refused else 'os-error')))
            if through_out and not refused:
                ctx.fail(canon, 'a member lying on or below a link that already exists in the working directory and leads '
                                'outside was not refused (%s)' % ename, cls)
            term = '(%s, %s, %s, %s)' % (csegs(sb.canonical(sb.work)),
                                         clist(pre_model, lambda l: cpair(csegs(l[0]), csegs(l[1]))),
                                         clist([(sb.canonical(n), k, sb.canonical(l)) for (n, k, l) in seen], cmember),
                                         cbool(accepted))
            ctx.sample({'pre-existing links': canon['pre_link'], 'archive': canon['members'][:5], 'accepted': accepted,
                        'error': ename}, limit=16)
            return ('pre', term, canon, {'accepted': accepted, 'error': ename})
        lst = None
        if exc is None:
            inside = listing(sb.work)
            lst = sorted(inside)
        regular = regular_archive(sb.work, seen)
        ctx.count('tar:regular' if regular else 'tar:irregular')
        term = '(%s, %s, %s, %s, %s)' % (csegs(sb.canonical(sb.work)),
                                         clist([(sb.canonical(n), k, sb.canonical(l)) for (n, k, l) in seen], cmember),
                                         cbool(accepted), cbool(regular), '(@None (list (list string)))' if lst is None else copt(lst, lambda l: clist(l, csegs)))
        ctx.sample({'archive': canon['members'][:5], 'accepted': accepted, 'error': ename, 'entries': lst[:6] if lst else lst})
        return (term, canon, {'accepted': accepted, 'error': ename, 'entries': lst})
    finally:
        pool.release(sb, changed)


# ------------------------------------------------------------------ copy / link
STAGE_SOURCES = ['srcs/prod/out.txt', 'srcs/prod', 'srcs/prod/', 'srcs/prod/sub', 'srcs/a.b.txt', 'srcs/..hidden',
                 'srcs/prod/../prod/out.txt', 'srcs/prod/.', 'srcs/prod/..', 'srcs/prod/sub/x.dat', 'srcs/plink',
                 'srcs/prod/sub/', 'srcs//prod', 'srcs/prod/sub/../out.txt', 'srcs/./a.b.txt', 'out/secret.txt', 'out']


def run_stage_case(ctx, src_rel, method, via_job):
    pool = POOLS['work']
    sb = pool.acquire()
    changed = True
    try:
        src = os.path.join(sb.root, src_rel)
        before = pool.snapshot(sb)
        exc = stage(sb.work, [Ref(method, src)], via_job)
        after = listing(sb.root, exclude=sb.work)
        changed = before != after
        canon = {'source': os.path.join(sb.canon, src_rel), 'method': method, 'via_job': via_job}
        ctx.case(canon, nontrivial=True)
        ctx.count('stage:' + method)
        ch = diff_listing(before, after)
        if ch:
            ctx.fail(canon, '%s staging changed something outside the working directory: %s' % (method, ch[:3]))
        ename = type(exc).__name__ if exc is not None else None
        if exc is not None and ename != 'DataReferenceCouldNotStageError':
            ctx.fail(canon, '%s staging raised %s instead of a staging error' % (method, ename))
        top = sorted(os.listdir(sb.work))
        expect = os.path.split(src)[1]
        if len(top) > 1 or (top and top[0] != expect):
            ctx.fail(canon, '%s staging created %s in the working directory, expected the single entry %r' % (method, top, expect))
        if exc is None and not top:
            ctx.fail(canon, '%s staging reported success but created nothing' % method)
        ctx.sample({'stage': canon, 'created': top, 'error': ename}, limit=9)
        return ('(%s, %s)' % (cstr(canon['source']), copt(top[0], cstr) if top else '(@None string)'), canon, {'created': top, 'error': ename})
    finally:
        pool.release(sb, changed)


def run_migrate_case(ctx, src_rel):
    """Job.stageIn of a migrated component: <stage>/work is removed and ONE link named by the last segment of the
    reference appears in the stage directory <sandbox>/t; nothing else changes anywhere"""
    import experiment.model.data as D
    pool = POOLS['work']
    sb = pool.acquire()
    try:
        src = os.path.join(sb.root, src_rel)
        with open(os.path.join(sb.work, 'old.txt'), 'w') as fh:
            fh.write('old')
        stage_dir = os.path.dirname(sb.work)
        before = listing(sb.root)
        wd = types.SimpleNamespace(path=sb.work, stageIndex=1, experimentDirectory=None)
        ref = Ref('link', src)
        job = types.SimpleNamespace(
            cid=types.SimpleNamespace(identifier='stage1.work'), type='local', isMigrated=True, workingDirectory=wd,
            workflowGraph=None, isStaged=False,
            componentSpecification=types.SimpleNamespace(dataReferences=[ref], inputDataReferences=[ref],
                                                         componentDataReferences=[], producers={}))
        try:
            D.Job.stageIn(job, verbose=False)
            exc = None
        except BaseException as e:  # noqa
            exc = e
        after = listing(sb.root)
        canon = {'source': os.path.join(sb.canon, src_rel), 'method': 'migrated', 'via_job': True}
        ctx.case(canon, nontrivial=True)
        ctx.count('stage:migrated')
        ename = type(exc).__name__ if exc is not None else None
        rel_work = os.path.relpath(sb.work, sb.root)
        rel_stage = os.path.relpath(stage_dir, sb.root)
        # the working directory itself turning from a directory into the link counts as removed + added
        added = sorted(k for k in after if k not in before or (k == rel_work and before[k] != after[k]))
        removed = sorted(k for k in before if k not in after)
        altered = sorted(k for k in before if k in after and before[k] != after[k] and k != rel_work)
        bad_removed = [k for k in removed if not (k == rel_work or k.startswith(rel_work + os.sep))]
        if bad_removed or altered:
            ctx.fail(canon, 'migrating a component removed or altered something other than its working directory: %s'
                     % (bad_removed + altered)[:3])
        expect = os.path.split(src)[1]
        new_names = [os.path.relpath(k, rel_stage) for k in added]
        if len(added) > 1 or (added and (os.path.dirname(added[0]) != rel_stage or new_names[0] != expect or
                                         after[added[0]] != 'link:' + src)):
            ctx.fail(canon, 'migrating a component created %s, expected the single link %r -> reference in the stage directory'
                     % ([(k, after[k]) for k in added][:3], expect))
        if exc is None and not added:
            ctx.fail(canon, 'migration reported success but created nothing')
        if exc is None and job.workingDirectory.path != os.path.join(stage_dir, expect):
            ctx.fail(canon, 'the migrated working directory is %s' % job.workingDirectory.path)
        created = new_names[0] if added else None
        ctx.sample({'migrated': canon, 'created in stage directory': new_names, 'error': ename}, limit=20)
        return ('(%s, %s)' % (cstr(canon['source']), copt(created, cstr) if created is not None else '(@None string)'), canon,
                {'created': new_names, 'error': ename})
    finally:
        pool.release(sb, True)


# ------------------------------------------------------------------ sequences of references into ONE working directory
# Job.stageIn stages a component's references one after the other into the same directory: a later reference finds what
# the earlier ones (or an earlier run: [pre]) left there.  A step is (method, what): what = a source path relative to the
# sandbox for copy / link / copyout, a member list for extract.  Names collide (same last segment from different
# producers, file vs directory), nest (archive members below an earlier name) and meet links (of :link references, links
# re-created by copytree, link members, links found in the directory: dangling, looping, leading outside or inside).
SEQ_STEPS = {
    'out.txt': [('link', 'srcs/prod/out.txt'), ('copy', 'srcs/prod2/out.txt'), ('copy', 'srcs/prod3/out.txt'),
                ('link', 'srcs/prod3/out.txt'), ('copyout', 'srcs/prod/out.txt'),
                ('extract', [('out.txt', 'file', '')]), ('extract', [('other.txt', 'file', ''), ('out.txt', 'sym', 'other.txt')]),
                ('extract', [('out.txt/deep.txt', 'file', '')])],
    'sub': [('link', 'srcs/prod/sub'), ('copy', 'srcs/prod2/sub'), ('copy', 'srcs/prod3/sub'), ('copyout', 'srcs/prod/sub'),
            ('extract', [('sub/x.dat', 'file', '')]), ('extract', [('sub/lnk/e.txt', 'file', '')]), ('extract', [('sub', 'dir', '')]),
            ('extract', [('sub', 'sym', SB + '/out')]), ('extract', [('sub/new/z', 'file', ''), ('sub/yl', 'file', '')])],
}
SEQ_OTHER = [('copy', 'srcs/a.b.txt'), ('link', 'srcs/plink'), ('copy', 'srcs/plink'), ('link', 'out/secret.txt'),
             ('copy', 'out/secret.txt'), ('extract', [('d', 'dir', ''), ('d/k', 'file', '')]), ('copy', 'srcs/prod/'),
             ('link', 'srcs/prod/.'), ('copy', 'srcs/prod'), ('extract', [('secret.txt', 'file', '')]),
             ('extract', [('a.b.txt', 'sym', 'out.txt')]), ('copyout', 'srcs/prod3/other.txt')]
# what the working directory holds before: (relative path, 'link' | 'file' | 'dir', link text)
SEQ_PRE = {
    'out.txt': [[('out.txt', 'link', SB + '/out/secret.txt')], [('out.txt', 'link', SB + '/out/new.txt')],
                [('out.txt', 'link', 'nowhere')], [('out.txt', 'link', 'out.txt')], [('out.txt', 'link', SB + '/out')],
                [('out.txt', 'file', '')], [('out.txt', 'dir', '')], [('out.txt', 'link', 'other.txt'), ('other.txt', 'file', '')],
                [('out.txt', 'link', '../work2/keep.txt')]],
    'sub': [[('sub', 'link', SB + '/out')], [('sub', 'link', 'real'), ('real', 'dir', '')], [('sub', 'dir', ''), ('sub/lnk', 'link', SB + '/out')],
            [('sub', 'file', '')], [('sub', 'link', SB + '/t/work2')], [('sub', 'link', 'gone')]],
}
# boundary cases kept forever
CORPUS_SEQ = [
    # F18f: p1/out.txt:link then p2/out.txt:copy overwrote p1/out.txt through the link
    ([], [('link', 'srcs/prod/out.txt'), ('copy', 'srcs/prod2/out.txt')]),
    ([], [('link', 'srcs/prod/out.txt'), ('copyout', 'srcs/prod2/out.txt')]),
    # F18f: a dangling link found in the directory made the copy create the file it names, outside
    ([('out.txt', 'link', SB + '/out/new.txt')], [('copy', 'srcs/prod2/out.txt')]),
    # a link member of an archive staged first, then a file copied on top of it
    ([], [('extract', [('out.txt', 'sym', 'other.txt')]), ('copy', 'srcs/prod2/out.txt'), ('copy', 'srcs/prod3/other.txt')]),
    # a directory copied into a name that is a link to a directory; a second link over the name; a file named like the link
    ([], [('link', 'srcs/prod/sub'), ('copy', 'srcs/prod2/sub'), ('link', 'srcs/prod2/sub'), ('copy', 'srcs/prod3/sub')]),
    # an archive member below a link that copytree re-created in the directory (prod2/sub/lnk -> out)
    ([], [('copy', 'srcs/prod2/sub'), ('extract', [('sub/lnk/e.txt', 'file', '')]), ('extract', [('sub/new/z', 'file', '')])]),
    # copy then link, file vs directory of the same name
    ([], [('copy', 'srcs/prod2/out.txt'), ('link', 'srcs/prod/out.txt'), ('copy', 'srcs/prod3/out.txt'), ('copy', 'srcs/prod/out.txt')]),
]


def gen_seq(rng):
    n = rng.choice(['out.txt', 'out.txt', 'sub'])
    pre = list(rng.choice(SEQ_PRE[n])) if rng.random() < 0.35 else []
    steps = []
    for _ in range(rng.randint(2, 4)):
        r = rng.random()
        steps.append(rng.choice(SEQ_STEPS[n]) if r < 0.7 else
                     (rng.choice(SEQ_STEPS['sub' if n == 'out.txt' else 'out.txt']) if r < 0.8 else rng.choice(SEQ_OTHER)))
    return pre, steps


def work_state(sb, work=None):
    """every entry of the working directory: (relative path, kind code, lexically normalised canonical target of a link)"""
    out = []
    work = work or sb.work
    for rel, desc in sorted(listing(work).items()):
        kind = desc.split(':', 1)[0]
        tgt = ''
        if kind == 'link':
            p = os.path.join(work, rel)
            tgt = sb.canonical(os.path.normpath(os.path.join(os.path.dirname(p), os.readlink(p))))
        out.append((rel, {'dir': 0, 'file': 1, 'link': 2}[kind], tgt))
    return out


def seq_classes(pre, steps):
    """F18f (fixed): a file is copied into a name that an earlier step, or the directory itself, may hold as a link"""
    linked = set(r for r, k, _ in pre if k == 'link')
    for method, what in steps:
        if method == 'extract':
            linked |= set(os.path.normpath(n) for n, k, _ in what if k == 'sym')
        elif method == 'link':
            linked.add(os.path.split(what)[1])
        elif os.path.split(what)[1] in linked:
            return ['copy_on_top_of_existing_link']
    return []


def run_seq_case(ctx, pre, steps, via_job, label, share=False):
    """one component: [pre] is put into a fresh working directory, then the references are staged.  share: steps that
    extract the same member list reference ONE archive file, written once (a component that names an archive twice)"""
    pool = POOLS['work']
    sb = pool.acquire()
    changed = True
    try:
        r, changed = seq_core(ctx, sb, sb.work, pre, steps, via_job, label, {} if share else None)
        return r
    finally:
        pool.release(sb, changed)


def archive_for(sb, archives, what, i, alias=None, tag=''):
    """the archive file of an :extract step.  archives (a dict shared by the steps / components of one case, or None):
    one FILE per distinct member list, written once and then left alone — same path, same content, same mtime — the way
    the replicas and consumers of a workflow all reference one input/bundle.tar.  alias: the reference reaches that
    file by another path ('symlink': a link to it, 'copy': shutil.copy2 of it — same size and mtime, 'hard': a hard link)"""
    real = [(sb.real(n), k, sb.real(l)) for (n, k, l) in what]
    if archives is None:
        arch = os.path.join(sb.root, 'arch', 's%d.tar' % i)
        write_archive(arch, real, tarfile.GNU_FORMAT)
        return arch
    key = tuple(tuple(m) for m in what)
    if key not in archives:
        arch = os.path.join(sb.root, 'arch', 'm%d.tar' % len(archives))
        write_archive(arch, real, tarfile.GNU_FORMAT)
        archives[key] = arch
    arch = archives[key]
    if alias:
        other = os.path.join(sb.root, 'arch', 'alias%s_%d.tar' % (tag, i))
        if os.path.lexists(other):
            os.unlink(other)
        if alias == 'symlink':
            os.symlink(arch, other)
        elif alias == 'hard':
            os.link(arch, other)
        else:
            shutil.copy2(arch, other)
        arch = other
    return arch


def seq_core(ctx, sb, work, pre, steps, via_job, label, archives=None, outer=None, alias=None):
    """[pre] is put into the working directory [work] (created by the caller), the references are staged into it by the
    real code, the outside listing (everything in the sandbox that is not below [work]) is compared.  outer: (canonical
    multi-component case, index of this component) when the directory is one of several staged in this process.
    Returns ((term, canonical case, impl), something outside changed)"""
    import experiment.model.data as D
    changed = True
    tag = '' if outer is None else 'c%d' % outer[1]
    if True:
        for rel, kind, text in pre:
            q = os.path.join(work, rel)
            if not os.path.isdir(os.path.dirname(q)):
                os.makedirs(os.path.dirname(q))
            if kind == 'link':
                os.symlink(sb.real(text), q)
            elif kind == 'dir':
                os.makedirs(q)
            else:
                with open(q, 'w') as fh:
                    fh.write('found')
        refs, terms, cseq = [], [], []
        for i, (method, what) in enumerate(steps):
            if method == 'extract':
                arch = archive_for(sb, archives, what, i, alias, tag)
                seen = [(sb.canonical(n), k, sb.canonical(l)) for (n, k, l) in read_members(arch)]
                r = Ref('extract', arch)
                terms.append('(RExtract %s)' % clist(seen, cmember))
                cseq.append(['extract', [list(m) for m in seen]])
            else:
                src = os.path.join(sb.root, what)
                csrc = os.path.join(sb.canon, what)
                r = Ref(method, src)
                if method == 'link':
                    terms.append('(RLink %s)' % cstr(csrc))
                elif os.path.isdir(src):
                    terms.append('(RCopyDir %s %s)' % (cstr(csrc), ctree(source_tree(sb, src))[len('(Some '):-1]))
                else:
                    terms.append('(RCopyFile %s)' % cstr(csrc))
                cseq.append([method, what])
            r.stringRepresentation = 'producer%d:%s' % (i, method)
            refs.append(r)
        # Job.stageIn stages the copyout references after all others
        order = list(range(len(steps)))
        if via_job:
            order = [i for i in order if steps[i][0] != 'copyout'] + [i for i in order if steps[i][0] == 'copyout']
        canon = {'seq': cseq, 'pre': [[r, k, sb.canonical(sb.real(t))] for r, k, t in pre], 'via_job': via_job}
        if archives is not None and outer is None:
            canon['share'] = True
        mine = canon
        if outer is not None:
            canon = outer[0]
        where = '' if outer is None else ' (component %d of the case, %s)' % (outer[1], os.path.relpath(work, sb.root))
        cls = seq_classes(pre, [steps[i] for i in order])
        st0 = work_state(sb, work)
        before = listing(sb.root, exclude=work)

        def code(e):
            if type(e).__name__ == 'DataReferenceCouldNotStageError':
                return 1 if REFUSED in str(e) else 2
            return 3 if type(e).__name__ == 'DataReferenceFilesDoNotExistError' else 4
        codes, errors = [], []
        if via_job:
            exc = stage(work, refs, True)
            if exc is None:
                codes = [0] * len(order)
            else:
                at = [k for k, i in enumerate(order) if ('producer%d:' % i) in str(exc)]
                codes = [0] * (at[0] if at else 0) + [code(exc)]
                errors.append(type(exc).__name__)
        else:
            wd = WorkDir(work)
            for i in order:
                try:
                    D.StageReference(refs[i], wd, None)
                    codes.append(0)
                except BaseException as e:  # noqa
                    codes.append(code(e))
                    errors.append(type(e).__name__)
        after = listing(sb.root, exclude=work)
        changed = before != after
        if outer is None:
            ctx.case(canon, nontrivial=True)
        ctx.count('seq:' + label)
        ctx.count('seq:steps=%d' % len(steps))
        for i, c in zip(order, codes):
            ctx.count('seq:%s:%s' % (steps[i][0], {0: 'staged', 1: 'refused', 2: 'os-error'}.get(c, 'other')))
        if cls:
            ctx.count('seq:file-copied-onto-a-name-that-was-linked')
        ch = diff_listing(before, after)
        if ch:
            ctx.fail(canon, 'staging a sequence of references into one working directory changed something outside it%s: %s'
                     % (where, ch[:3]), cls)
        if any(c > 2 for c in codes):
            ctx.fail(canon, 'staging raised %s instead of a staging error%s' % (errors, where), cls)
        st1 = work_state(sb, work)
        if any(k == 2 for _, k, _ in st1):
            ctx.count('seq:directory-holds-links-afterwards')

        def cfs(e):
            rel, k, t = e
            return cpair(csegs(os.path.join(sb.canonical(work), rel)), ['EDir', 'EFile', '(ELink %s)' % csegs(t)][k])
        term = '(%s, %s, %s, %s, %s, %s)' % (
            csegs(sb.canonical(work)), clist(st0, cfs), '[%s]' % '; '.join(terms[i] for i in order), cbool(via_job),
            clist(codes, cnat), clist(st1, lambda e: '(%s, %s, %s)' % (csegs(e[0]), cnat(e[1]), csegs(e[2]))))
        smp = {'found in the directory': mine['pre'], 'references': [[m, w if isinstance(w, str) else w[:3]] for m, w in cseq],
               'via_job': via_job, 'codes (0 staged 1 refused 2 OSError)': codes,
               'directory afterwards': [[r, k, t] for r, k, t in st1][:8]}
        if outer is not None:
            smp['component'] = '%d of a multi-component case: %s' % (outer[1], os.path.relpath(work, sb.root))
            ctx.sample(smp, limit=36)
        else:
            ctx.sample(smp, limit=24)
        impl = {'codes': codes, 'errors': errors, 'directory': [[r, k, t] for r, k, t in st1][:30]}
        if outer is not None:
            impl['component'] = outer[1]
        return (term, canon, impl), changed


# ------------------------------------------------------------------ several components staged in ONE process
# The components of a workflow are staged by one process, one Job.stageIn after the other, and they reference the SAME
# input files: one archive file (same path, unchanged) is extracted into several working directories.  Whether it may
# be extracted depends on the directory it goes INTO — the links that directory holds, which absolute names are inside
# it — so nothing the staging code remembers from an earlier call (another directory, another state of this one) may
# decide a later one.  A case is a list of components {'dir', 'pre', 'seq', 'via_job', 'alias'} staged in that order;
# extract steps with the same member list share one archive file written once (archive_for); each component's outside
# listing covers the directories of all the others; every component is compared with Path.Model.stage_seq over what
# ITS directory held.
MULTI_DIRS = ['t/work', 't/wb', 't/wc']
MULTI_ABS = [[(SB + '/%s/state.txt', 'file', ''), ('notes.txt', 'file', '')],
             [('d', 'dir', ''), (SB + '/%s/d/in.txt', 'file', '')],
             [('l', 'sym', SB + '/%s/notes.txt'), ('notes.txt', 'file', '')]]
MULTI_ALIAS = [None, None, 'symlink', 'copy', 'hard']


def extract_steps(n):
    return [st for st in SEQ_STEPS[n] if st[0] == 'extract']


def multi_family():
    """systematic: every archive of the colliding-name alphabets, first into an empty directory, then (the same file) into
    a directory prepared in every way that puts something at / on the way to the name; every third case the other way
    round (a refusal must not be remembered either); archives with absolute names inside one directory staged into it
    and then into each other one"""
    out = []
    k = 0
    for n in sorted(SEQ_STEPS):
        preps = [(pre, []) for pre in SEQ_PRE[n]] + [([], [st]) for st in SEQ_STEPS[n] if st[0] != 'extract']
        for a in extract_steps(n):
            for pre, before in preps:
                clean = {'dir': MULTI_DIRS[k % 3], 'pre': [], 'seq': [a], 'via_job': k % 2 == 0, 'alias': None}
                prepared = {'dir': MULTI_DIRS[(k + 1 + k // 3 % 2) % 3], 'pre': pre, 'seq': before + [a], 'via_job': k % 4 < 2,
                            'alias': MULTI_ALIAS[k % len(MULTI_ALIAS)]}
                out.append([prepared, clean] if k % 3 == 2 else [clean, prepared])
                k += 1
    for i, x in enumerate(MULTI_DIRS):
        for j, y in enumerate(MULTI_DIRS):
            if i != j:
                for t, tmpl in enumerate(MULTI_ABS):
                    a = ('extract', [(nm % x if '%s' in nm else nm, kd, (ln % x if '%s' in ln else ln)) for nm, kd, ln in tmpl])
                    out.append([{'dir': x, 'pre': [], 'seq': [a], 'via_job': (i + t) % 2 == 0, 'alias': None},
                                {'dir': y, 'pre': [], 'seq': [a], 'via_job': (j + t) % 2 == 0, 'alias': MULTI_ALIAS[(i + j + t) % 5]}])
    return out


def gen_multi(rng):
    """2..3 components in distinct directories; 1..2 archives that most extract steps use; each directory found empty or
    holding something at the name; 1..3 steps each"""
    n = rng.choice(['out.txt', 'sub', 'sub'])
    dirs = rng.sample(MULTI_DIRS, rng.randint(2, 3))
    pool = extract_steps(n) + [st for st in SEQ_OTHER if st[0] == 'extract']
    if rng.random() < 0.3:
        pool = pool + [('extract', [(nm % dirs[0] if '%s' in nm else nm, kd, (ln % dirs[0] if '%s' in ln else ln))
                                    for nm, kd, ln in rng.choice(MULTI_ABS)])]
    shared = rng.sample(pool, rng.randint(1, 2))
    comps = []
    for d in dirs:
        pre = list(rng.choice(SEQ_PRE[n])) if rng.random() < 0.3 else []
        seq = []
        for _ in range(rng.randint(1, 3)):
            r = rng.random()
            seq.append(rng.choice(shared) if r < 0.6 else (rng.choice(SEQ_STEPS[n]) if r < 0.9 else rng.choice(SEQ_OTHER)))
        if not any(st in shared for st in seq):
            seq.append(rng.choice(shared))
        comps.append({'dir': d, 'pre': pre, 'seq': seq, 'via_job': rng.random() < 0.5, 'alias': rng.choice(MULTI_ALIAS)})
    return comps


# boundary cases kept forever
CORPUS_MULTI = [
    # round-7 seed C18_m11: an archive accepted for one directory was extracted unchecked into another one, through the
    # link an earlier :link reference had left there
    [{'dir': 't/work', 'pre': [], 'seq': [('extract', [('n.txt', 'file', ''), ('sub/x.dat', 'file', '')])], 'via_job': True, 'alias': None},
     {'dir': 't/wb', 'pre': [], 'seq': [('link', 'srcs/prod/sub'), ('extract', [('n.txt', 'file', ''), ('sub/x.dat', 'file', '')])],
      'via_job': True, 'alias': None}],
    # an absolute name is inside exactly one working directory
    [{'dir': 't/wb', 'pre': [], 'seq': [('extract', [('n.txt', 'file', ''), (SB + '/t/wb/state.txt', 'file', '')])], 'via_job': False, 'alias': None},
     {'dir': 't/wc', 'pre': [], 'seq': [('extract', [('n.txt', 'file', ''), (SB + '/t/wb/state.txt', 'file', '')])], 'via_job': False, 'alias': None}],
    # the refusal for a directory that holds a link says nothing about a clean one; the same file by another path
    [{'dir': 't/wc', 'pre': [('sub', 'link', SB + '/out')], 'seq': [('extract', [('sub/x.dat', 'file', '')])], 'via_job': True, 'alias': None},
     {'dir': 't/work', 'pre': [], 'seq': [('extract', [('sub/x.dat', 'file', '')])], 'via_job': False, 'alias': 'symlink'},
     {'dir': 't/wb', 'pre': [('sub', 'link', 'gone')], 'seq': [('extract', [('sub/x.dat', 'file', '')])], 'via_job': True, 'alias': 'copy'}],
]
# one directory, the same archive file referenced again after the directory changed
CORPUS_SHARE = [
    ([], [('extract', [('other.txt', 'file', ''), ('out.txt', 'sym', 'other.txt')]),
          ('extract', [('other.txt', 'file', ''), ('out.txt', 'sym', 'other.txt')])]),
    ([], [('extract', [('d', 'dir', ''), ('d/k', 'file', '')]), ('copy', 'srcs/prod2/sub'), ('extract', [('d', 'dir', ''), ('d/k', 'file', '')]),
          ('extract', [('sub/lnk/e.txt', 'file', '')])]),
]


def run_multi_case(ctx, comps, label):
    pool = POOLS['work']
    sb = pool.acquire()
    made = []
    base = None
    try:
        def rest():
            """everything but the pool's directory and the archive files the cases write"""
            return {k: v for k, v in listing(sb.root, exclude=sb.work).items() if not k.startswith('arch' + os.sep)}
        base = rest()

        def cm(w):
            return w if isinstance(w, str) else [[sb.canonical(sb.real(n)), k, sb.canonical(sb.real(l))] for n, k, l in w]
        canon = {'multi': [{'dir': c['dir'], 'pre': [[r, k, sb.canonical(sb.real(t))] for r, k, t in c['pre']],
                            'seq': [[m, cm(w)] for m, w in c['seq']], 'via_job': c['via_job'], 'alias': c.get('alias')}
                           for c in comps]}
        ctx.case(canon, nontrivial=True)
        ctx.count('multi:' + label)
        ctx.count('multi:components=%d' % len(comps))
        for c in comps:
            w = os.path.join(sb.root, c['dir'])
            if w != sb.work and not os.path.lexists(w):
                os.makedirs(w)
                made.append(w)
        archives = {}
        out = []
        for j, c in enumerate(comps):
            ctx.count('multi:alias=%s' % c.get('alias'))
            r, _ = seq_core(ctx, sb, os.path.join(sb.root, c['dir']), c['pre'], c['seq'], c['via_job'], 'multi-' + label,
                            archives, (canon, j), c.get('alias'))
            out.append(r)
        codes = [r[2]['codes'] for r in out]
        if any(1 in cs for cs in codes) and any(cs and cs[-1] == 0 for cs in codes):
            ctx.count('multi:an-archive-staged-here-refused-there')
        return out
    finally:
        for w in made:
            shutil.rmtree(w, ignore_errors=True)
        pool.release(sb, base is None or rest() != base)


# ------------------------------------------------------------------ source folders with links inside
# A :copy entry brings the CONTENT of its source folder into the instance; what that content is made of — in
# particular symbolic links at any depth (to directories, to files, dangling, absolute, relative, leading inside or
# outside the source) — decides whether a later, nested, manifest key is populated through a link.  The generated
# source folders live in <sandbox>/pkg/gen/<name>, a tree is [(relative path, 'dir'|'file'|'link', link text)].
GEN = 'gen'


def make_trees(sb, trees):
    root = os.path.join(sb.root, 'pkg', GEN)
    shutil.rmtree(root, ignore_errors=True)
    for name in sorted(trees or {}):
        base = os.path.join(root, name)
        os.makedirs(base)
        for rel, kind, text in trees[name]:
            q = os.path.join(base, rel)
            if kind == 'dir':
                os.makedirs(q, exist_ok=True)
            elif kind == 'file':
                with open(q, 'w') as fh:
                    fh.write('content of %s/%s' % (name, rel))
            else:
                os.symlink(sb.real(text), q)


def source_tree(sb, path, depth=0):
    """the content of a source folder as the model takes it: entries in walk order, what lies below a link to a
    directory listed as seen through the link; None when the path is not a directory"""
    if not os.path.isdir(path):
        return None
    out = []

    def walk(p, rel, depth):
        if depth > 7:                                                  # generated trees have no link loops
            raise RuntimeError('source tree too deep: %s' % p)
        for name in sorted(os.listdir(p)):
            q = os.path.join(p, name)
            r = rel + [name]
            if os.path.islink(q):
                sees = None if not os.path.exists(q) else os.path.isdir(q)
                out.append((r, 'link', sb.canonical(os.readlink(q)), sees))
                if sees:
                    walk(q, r, depth + 1)
            elif os.path.isdir(q):
                out.append((r, 'dir', '', None))
                walk(q, r, depth + 1)
            else:
                out.append((r, 'file', '', None))
    walk(path, [], 0)
    return out


def ctree(t):
    if t is None:
        return '(@None stree)'

    def ent(e):
        rel, kind, text, sees = e
        if kind == 'link':
            k = '(SLnk %s %s)' % (cstr(text), '(@None bool)' if sees is None else '(Some %s)' % cbool(sees))
        else:
            k = 'SDir' if kind == 'dir' else 'SFile'
        return cpair(clist(rel, cstr), k)
    return '(Some %s)' % clist(t, ent)


def source_and_method(v):
    """sourceFolder.rsplit(':', 1) of expandPackageToDirectory"""
    if ':' in v:
        return tuple(v.rsplit(':', 1))
    return v, 'copy'


LINK_DIRS = lambda up, g: [SB + '/out', up + '../../../out', up + '../../src2', SB + '/pkg/src2', up + 'plain',  # noqa
                           SB + '/pkg/gen/%s/plain' % g, up + '../../src/deep', SB + '/out']
LINK_FILES = lambda up, g: [SB + '/out/secret.txt', up + 'f.txt', up + '../../src/f.txt', up + '../../../t/work2/keep.txt']  # noqa
LINK_DANGLING = lambda up, g: ['nowhere', SB + '/out/none', up + '../../../gone/x']  # noqa


def gen_tree(rng, g, links):
    """a source folder: plain/ (never holds a link: inner links may point at it without making a loop), f.txt, sometimes
    d/e/; [links] symbolic links at depth 0..2"""
    ents = [('plain', 'dir', ''), ('plain/p.txt', 'file', ''), ('f.txt', 'file', '')]
    homes = ['']
    if rng.random() < 0.6:
        ents += [('d', 'dir', ''), ('d/e', 'dir', ''), ('d/e/k.dat', 'file', '')]
        homes += ['d/', 'd/e/', 'd/']
    used = set()
    for _ in range(links):
        where = rng.choice(homes)
        name = where + rng.choice(['shared', 'l', 'ln2'])
        if name in used:
            continue
        used.add(name)
        up = '../' * where.count('/')
        r = rng.random()
        pool = LINK_DIRS if r < 0.6 else (LINK_FILES if r < 0.8 else LINK_DANGLING)
        choices = pool(up, g)
        if g == 'g0' and r < 0.6:
            # a link to the OTHER generated folder, which may hold links itself (g1 never points back: no loops)
            choices = choices + [up + '../g1', SB + '/pkg/gen/g1']
        ents.append((name, 'link', rng.choice(choices)))
    return ents


def gen_tree_manifest(rng):
    """(trees, manifest): a :copy of a generated source folder and a second entry whose key is a nested path that lands
    on, below or next to something inside the first target — preferably a link of the source folder"""
    trees = {'g0': gen_tree(rng, 'g0', rng.choice([0, 1, 1, 2, 2, 3]))}
    if rng.random() < 0.7:
        trees['g1'] = gen_tree(rng, 'g1', rng.choice([0, 0, 1]))
    top = rng.choice(['data', 'a', 'data/sub', 'x/y', 'conf', 'bin', './data'])
    first = (top, GEN + '/g0' + rng.choice([':copy', ':copy', '', ':copy', ':link']))
    lnk = [e[0] for e in trees['g0'] if e[1] == 'link']
    other = [e[0] for e in trees['g0'] if e[1] != 'link'] + ['nothing']
    man = [first]
    r = rng.random()
    if r < 0.85:
        inner = rng.choice(lnk) if lnk and rng.random() < 0.7 else rng.choice(other)
        key2 = top + '/' + inner + rng.choice(['/extra', '/extra', '/extra/deep', '/x', '', '/.'])
        src2 = rng.choice([GEN + '/g1:copy', GEN + '/g1', 'src2:copy', 'src2', 'src2:link', GEN + '/g1:link',
                           GEN + '/g0/plain:copy', 'src/deep:copy'])
        man.append((key2, src2))
        if rng.random() < 0.15:
            man.reverse()
        if rng.random() < 0.25 and lnk:
            man.append((top + '/' + rng.choice(lnk) + '/third', rng.choice(['src2:copy', 'src2:link'])))
    if r >= 0.7 and lnk:
        # the source folder of an entry is itself (reached through) a link of a generated folder
        via = rng.choice(['b', 'viaLink', 'data2/in'])
        man.append((via, GEN + '/g0/' + rng.choice(lnk) + rng.choice([':copy', '', ':link'])))
        if rng.random() < 0.5:
            inner = [e[0] for e in trees.get('g1', []) if e[1] == 'link'] + ['shared', 'plain']
            man.append((via + '/' + rng.choice(inner) + rng.choice(['/extra', '/x/y', '']), rng.choice(['src2:copy', 'src2', 'src2:link'])))
    if rng.random() < 0.3:
        man.insert(rng.randint(0, len(man)), (rng.choice(['hooks', 'ab', 'a.b', 'lib/x']), rng.choice(SOURCES[:6])))
    seen, out = set(), []
    for k, v in man:
        if k not in seen:
            seen.add(k)
            out.append((k, v))
    return trees, out


# boundary cases kept forever: (source folders, manifest)
CORPUS_TREE = [
    # a directory link (absolute, leading outside) directly in a copied folder + a nested key below it
    ({'g0': [('readme.txt', 'file', ''), ('shared', 'link', SB + '/out')], 'g1': [('notes.txt', 'file', '')]},
     [('data', GEN + '/g0:copy'), ('data/shared/extra', GEN + '/g1:copy')]),
    # a relative link two levels down, the nested key is a :link
    ({'g0': [('d', 'dir', ''), ('d/e', 'dir', ''), ('d/e/l', 'link', '../../../../../out')]},
     [('a', GEN + '/g0'), ('a/d/e/l/new', 'src2:link')]),
    # a link to a file and a dangling link: a key below either
    ({'g0': [('f.txt', 'file', ''), ('fl', 'link', SB + '/out/secret.txt')]},
     [('data', GEN + '/g0:copy'), ('data/fl/x', 'src2:copy')]),
    ({'g0': [('f.txt', 'file', ''), ('dang', 'link', 'nowhere')]},
     [('data', GEN + '/g0:copy'), ('data/dang/x', 'src2:copy')]),
    # links that stay inside the source folder (relative and absolute)
    ({'g0': [('plain', 'dir', ''), ('plain/p.txt', 'file', ''), ('in', 'link', 'plain'), ('ain', 'link', SB + '/pkg/gen/g0/plain')]},
     [('x/y', GEN + '/g0:copy'), ('x/y/in/extra', 'src2:copy'), ('x/y/ain/extra', 'src2')]),
    # the source folder itself is a link of another folder; a link to a sibling source folder
    ({'g0': [('shared', 'link', '../../src2'), ('plain', 'dir', '')]},
     [('b', GEN + '/g0/shared:copy'), ('c', GEN + '/g0:copy'), ('c/shared/deep', 'src/deep:copy')]),
    # the source folder is a link to a folder that itself holds a link; a nested key below that inner link
    ({'g0': [('l', 'link', '../g1')], 'g1': [('shared', 'link', SB + '/out'), ('n.txt', 'file', '')]},
     [('b', GEN + '/g0/l:copy'), ('b/shared/extra', 'src2:copy'), ('c', GEN + '/g0:copy'), ('c/l/shared/x', 'src2')]),
    # the nested key comes first: the folder copy then finds its target present
    ({'g0': [('shared', 'link', SB + '/out')]}, [('data/shared/extra', 'src2:copy'), ('data', GEN + '/g0:copy')]),
    # conf copied from a folder whose flowir_package.yaml / dsl.yaml is a link to a file outside
    ({'g0': [('flowir_package.yaml', 'link', SB + '/out/secret.txt'), ('dsl.yaml', 'link', SB + '/out/secret.txt')]},
     [('conf', GEN + '/g0:copy')]),
]


# ------------------------------------------------------------------ manifests
KEYS_OK = ['bin', 'data', 'conf', 'data/sub', 'a/b/c', './x', 'x/.', 'x//y', 'a', 'a/b', 'ab', 'hooks', 'a.b', '.']
KEYS_BAD = ['../x', 'a/../../x', '..', 'data/../..', SB + '/out/x', '/abs', '../x.instance2/y', '../../out/new', 'a/../b',
            './../x', SB + '/loc/x.instance/in']
SOURCES = ['src', 'src:copy', 'src2:link', SB + '/pkg/src:link', SB + '/pkg/src2:copy', 'src2', 'src:move', 'src/deep:copy',
           'src/deep:link', 'myconf:copy', 'myconf:link', 'src:', 'missing:copy']


def gen_manifest(rng, hostile):
    n = rng.randint(1, 3)
    keys = rng.sample(KEYS_OK, n)
    man = [(k, rng.choice(SOURCES[:6] + SOURCES[7:11])) for k in keys]
    if hostile:
        k = rng.choice(['badkey', 'badkey', 'through', 'through_norm', 'method', 'conflink', 'conffile'])
        if k == 'badkey':
            man.insert(rng.randint(0, len(man)), (rng.choice(KEYS_BAD), rng.choice(SOURCES[:6])))
        elif k == 'through':
            base = rng.choice(['a', 'data', 'l/m'])
            man = [e for e in man if not e[0].startswith(base)]
            pair = [(base, rng.choice(['src:link', SB + '/pkg/src:link', 'src/deep:link'])),
                    (base + '/' + rng.choice(['b', 'deep/new', 'b/c']), rng.choice(['src2:copy', 'src2', 'src2:link']))]
            if rng.random() < 0.3:
                pair.reverse()
            man += pair
        elif k == 'through_norm':
            man = [e for e in man if not e[0].startswith('a')]
            man += [('a', 'src:link'), (rng.choice(['a/.', './a', 'a/', 'a//', './a/b']), 'src2:copy')]
        elif k == 'method':
            man.append(('m', rng.choice(['src:move', 'src:', 'src:Link', 'src:copy:x'])))
        elif k == 'conflink':
            man = [e for e in man if not e[0].startswith('conf')]
            man.append((rng.choice(['conf', './conf', 'conf/']), rng.choice(['myconf:link', SB + '/pkg/myconf:link'])))
        elif k == 'conffile':
            # the package file itself (conf/flowir_package.yaml or conf/dsl.yaml) given as a link inside a copied conf
            man = [e for e in man if not e[0].startswith('conf')]
            man.append((rng.choice(['conf', './conf', 'conf/']), rng.choice(['myconf:copy', 'myconf'])))
            man.append((rng.choice(['conf/flowir_package.yaml', 'conf/dsl.yaml', './conf//flowir_package.yaml', 'conf/extra.yaml',
                                    'conf/./dsl.yaml']),
                        rng.choice(['src/f.txt:link', SB + '/pkg/src2/h.txt:link', 'src/f.txt:copy'])))
    seen = set()
    out = []
    for k, v in man:
        if k not in seen:
            seen.add(k)
            out.append((k, v))
    return out


def package_file(dsl):
    return os.path.join('conf', 'dsl.yaml' if dsl else 'flowir_package.yaml')


def self_write_escape(man, dsl):
    """independent oracle (F18d, fixed): a link target is <instance>/conf or the package file the deployment stores in
    it, so that the deployment's own write would go through the link"""
    for k, v in man:
        method = v.rsplit(':', 1)[1] if ':' in v else 'copy'
        if method == 'link' and not os.path.isabs(k) and os.path.normpath(k) in ('conf', package_file(dsl)):
            return True
    return False


def manifest_escape(target, man):
    """independent oracle: some key is absolute, leaves the instance directory, or lies in/on a link key"""
    tgt = target + os.sep
    links = []
    norm = {}
    for k, v in man:
        if os.path.isabs(k):
            return True
        p = os.path.normpath(os.path.join(target, k))
        norm[k] = p
        if not (p + os.sep).startswith(tgt):
            return True
        method = v.rsplit(':', 1)[1] if ':' in v else 'copy'
        if method == 'link' and p != target:
            links.append((k, p))
    for lk, lp in links:
        for k, _ in man:
            if k != lk and (norm[k] + os.sep).startswith(lp + os.sep):
                return True
    return False


PACKAGING = ('FlowIRManifestSyntaxException', 'FlowIRManifestKeyIsAbsolutePath', 'FlowIRManifestSourceInvalidReferenceMethod',
             'FlowIRManifestInvalidType', 'FlowIRManifestException')


def run_manifest_case(ctx, raw_man, label, dsl=False, trees=None):
    import experiment.model.frontends.flowir as F
    import experiment.model.storage as S
    import experiment.model.errors as E
    pool = POOLS['inst']
    sb = pool.acquire()
    changed = True
    try:
        man = [(sb.real(k), sb.real(v)) for k, v in raw_man]
        cman = [[sb.canonical(k), sb.canonical(v)] for k, v in man]
        canon = {'manifest': cman, 'dsl': dsl}
        make_trees(sb, trees)
        if trees:
            canon['trees'] = {g: [[r, k, sb.canonical(sb.real(t))] for r, k, t in trees[g]] for g in sorted(trees)}
            ctx.count('manifest:source-links=%d' % min(3, sum(1 for g in trees for e in trees[g] if e[1] == 'link')))
        # the content of every source folder named by the manifest, as the model takes it
        srcs = {}
        for k, v in man:
            src, _ = source_and_method(v)
            real_src = src if os.path.isabs(src) else os.path.join(sb.root, 'pkg', src)
            srcs[sb.canonical(src)] = source_tree(sb, real_src)
        cls = []
        ctx.case(canon, nontrivial=any(('..' in k.split('/')) or k.startswith('/') or '/' in k for k, _ in man) or
                 any(v.endswith(':link') for _, v in man))
        ctx.count('manifest:' + label)
        ctx.count('manifest:entries=%d' % len(man))
        before = pool.snapshot(sb)
        # -- Manifest.validate
        try:
            F.Manifest(dict(man))
            v_exc = None
        except BaseException as e:  # noqa
            v_exc = e
        # -- deployment
        conf = types.SimpleNamespace(location=os.path.join(sb.root, 'pkg', 'wf.yaml'), isExperimentPackageDirectory=False,
                                     manifestData={}, file_format='flowir')
        pkg = S.ExperimentPackage(conf, dict(man))
        try:
            pkg.expandPackageToDirectory(sb.inst, 'dsl' if dsl else 'flowir')
            d_exc = None
        except BaseException as e:  # noqa
            d_exc = e
        after = listing(sb.root, exclude=sb.inst)
        changed = before != after
        ch = diff_listing(before, after)
        if ch:
            ctx.fail(canon, 'deploying a manifest changed something outside the new instance directory: %s' % ch[:3], cls)
        vname = type(v_exc).__name__ if v_exc is not None else None
        dname = type(d_exc).__name__ if d_exc is not None else None
        if v_exc is not None and not isinstance(v_exc, E.FlowIRManifestException):
            ctx.fail(canon, 'Manifest validation raised %s instead of a manifest error' % vname, cls)
        if d_exc is not None and not isinstance(d_exc, (E.FlowIRManifestException, E.PackageCreateError)):
            ctx.fail(canon, 'deployment raised %s instead of a packaging error' % dname, cls)
        if manifest_escape(sb.inst, man):
            if v_exc is None:
                ctx.fail(canon, 'a manifest with a target outside the instance directory (or inside a link target) passed validation', cls)
            if d_exc is None:
                ctx.fail(canon, 'a manifest with a target outside the instance directory (or inside a link target) was deployed', cls)
        if self_write_escape(man, dsl) and not isinstance(d_exc, E.FlowIRManifestException):
            ctx.fail(canon, 'a manifest that makes conf or the package file inside it a link was not refused by the deployment '
                            '(%s)' % dname, cls)
        # no manifest target may have been populated THROUGH a link of the instance (a key below a :link key is refused
        # by the checks, so such a link can only have been brought by a :copy of a folder that holds links)
        for k, _ in man:
            if os.path.isabs(k) or not os.path.lexists(os.path.join(sb.inst, k)):
                continue
            q = sb.inst
            parts = [x for x in os.path.normpath(k).split(os.sep) if x not in ('', '.')]
            for x in parts[:-1]:
                q = os.path.join(q, x)
                if os.path.islink(q):
                    ctx.count('manifest:populated-through-link')
                    ctx.fail(canon, 'manifest target %r was populated through %s, a link of the instance to %s' % (
                        k, os.path.relpath(q, sb.inst), sb.canonical(os.readlink(q))), cls)
                    break
        if trees:
            below = False
            for k, v in raw_man:
                src, method = source_and_method(v)
                if method == 'copy' and src.startswith(GEN + '/') and src[len(GEN) + 1:] in trees:
                    for rel, kind, _ in trees[src[len(GEN) + 1:]]:
                        lp = os.path.normpath(os.path.join(k, rel)) + os.sep
                        if kind == 'link' and any(k2 != k and (os.path.normpath(k2) + os.sep).startswith(lp) for k2, _ in raw_man):
                            below = True
            if below:
                ctx.count('manifest:key-on-or-below-a-link-of-a-copied-folder')
                if d_exc is None:
                    ctx.count('manifest:key-on-or-below-a-link-of-a-copied-folder:deployed')
        inst_listing = listing(sb.inst) if os.path.isdir(sb.inst) and not os.path.islink(sb.inst) else {}
        codes = {'dir': 0, 'file': 1, 'link': 2}
        inst_entries = sorted((r.split(os.sep), codes[d.split(':', 1)[0]]) for r, d in inst_listing.items())
        if any(c == 2 for _, c in inst_entries):
            ctx.count('manifest:instance-holds-links')
        if d_exc is None:
            missing = [k for k, _ in man if not os.path.lexists(os.path.join(sb.inst, k))]
            if missing:
                ctx.fail(canon, 'deployment succeeded but targets %s do not exist in the instance' % missing, cls)
            pf = os.path.join(sb.inst, package_file(dsl))
            if os.path.islink(os.path.join(sb.inst, 'conf')) or os.path.islink(pf) or not os.path.isfile(pf):
                ctx.fail(canon, 'deployment succeeded but %s is not a regular file of the instance' % package_file(dsl), cls)
        d_accept = not isinstance(d_exc, E.FlowIRManifestException) if d_exc is not None else True
        ctx.count('manifest:valid' if v_exc is None else 'manifest:rejected')
        ctx.count('manifest:deployed' if d_exc is None else ('manifest:deploy-refused' if not d_accept else 'manifest:deploy-os-error'))
        ctx.sample({'manifest': cman, 'validate': vname, 'deploy': dname}, limit=12)
        term = '(%s, %s, %s, %s, %s, %s, %s)' % (
            clist(sorted(srcs.items()), lambda kv: cpair(cstr(kv[0]), ctree(kv[1]))),
            clist(cman, lambda e: cpair(cstr(e[0]), cstr(e[1]))), cbool(dsl), cbool(v_exc is None), cbool(d_accept),
            cbool(d_exc is None), clist(inst_entries, lambda e: cpair(clist(e[0], cstr), cnat(e[1]))))
        return (term, canon, {'validate': vname, 'deploy': dname, 'instance': [['/'.join(r), c] for r, c in inst_entries][:40]})
    finally:
        pool.release(sb, changed)


# ------------------------------------------------------------------ corpus (witnesses of the findings, kept forever)
CORPUS_TAR = [
    [('../escaped.txt', 'file', '')],                                            # F18b
    [('../../x', 'file', '')],
    [('lnk', 'sym', '../../out'), ('lnk/f.txt', 'file', '')],                    # F18b (through a link)
    [('lnk', 'sym', SB + '/out'), ('lnk/secret.txt', 'file', '')],
    [('sub', 'dir', ''), ('sub/l', 'sym', '..'), ('sub/l/../x.txt', 'file', '')],
    [('h', 'hard', '../../out/secret.txt'), ('h', 'file', '')],
    [('sub', 'dir', ''), ('sub/l', 'sym', '..'), ('m', 'sym', 'sub/l/..'), ('m/x.txt', 'file', '')],   # lexically inside, physically not
    [('sub', 'dir', ''), ('sub/l', 'sym', '..'), ('h', 'hard', 'sub/l/work2/keep.txt'), ('h', 'file', '')],
    [('../work2/x', 'file', '')],
    [(SB + '/t/work2/abs.txt', 'file', '')],
    [('./', 'dir', ''), ('./a', 'dir', ''), ('./a/b.txt', 'file', ''), ('a/l', 'sym', '../c'), ('h', 'hard', 'a/b.txt'),
     (SB + '/t/work/z', 'file', '')],
]
CORPUS_MAN = [
    [('../x', 'src')],                                                           # F18a
    [('a/../../x', 'src:copy')],
    [('a', 'src:link'), ('a/b', 'src2:copy')],                                   # F18c
    [('a', 'src:link'), ('a/.', 'src2:copy')],
    [('/abs', 'src')],
    [('bin', 'src'), ('data', 'src2:link'), ('conf', 'myconf:copy')],
    [('conf', 'myconf:link')],                                                   # F18d
    [('conf', 'myconf:copy'), ('conf/flowir_package.yaml', 'src/f.txt:link')],   # F18d (the package file itself is a link)
    [('./conf/', SB + '/pkg/myconf:link')],
    [('conf', 'myconf:copy'), ('conf/dsl.yaml', 'src/f.txt:link')],              # refused for a DSL package only
]


def _explore(ctx, tar_cases, stage_cases, man_cases, seq_cases=(), multi_cases=()):
    tar_terms, stage_terms, man_terms, pre_terms, seq_terms = [], [], [], [], []
    try:
        _drive(ctx, tar_cases, stage_cases, man_cases, tar_terms, stage_terms, man_terms, pre_terms)
        for c in seq_cases:
            seq_terms.append(run_seq_case(ctx, c['pre'], c['seq'], c.get('via_job', True), c.get('label', 'gen'),
                                          c.get('share', False)))
        for c in multi_cases:
            seq_terms.extend(run_multi_case(ctx, c['comps'], c.get('label', 'gen')))
    finally:
        for p in POOLS.values():
            p.close()
    _compare(ctx, tar_terms, stage_terms, man_terms, pre_terms, seq_terms)


def _drive(ctx, tar_cases, stage_cases, man_cases, tar_terms, stage_terms, man_terms, pre_terms):
    for c in tar_cases:
        r = run_tar_case(ctx, c['members'], c.get('via_job', True), c.get('pre_link'), c.get('fmt', tarfile.GNU_FORMAT),
                         c.get('label', 'gen'))
        if r is not None and r[0] == 'pre':
            pre_terms.append(r[1:])
        elif r is not None:
            tar_terms.append(r)
    for c in stage_cases:
        if c['method'] == 'migrated':
            stage_terms.append(run_migrate_case(ctx, c['source']))
        else:
            stage_terms.append(run_stage_case(ctx, c['source'], c['method'], c.get('via_job', True)))
    for c in man_cases:
        man_terms.append(run_manifest_case(ctx, c['manifest'], c.get('label', 'gen'), c.get('dsl', False), c.get('trees')))


def _compare(ctx, tar_terms, stage_terms, man_terms, pre_terms, seq_terms=()):
    for terms, checker, name in ((pre_terms, 'check_tar_pre', 'C18 archives into a working directory that holds links: StageReference check vs Path.Model.tar_check_pre'),
                                 (tar_terms, 'check_tar', 'C18 archives: StageReference check + created entries vs Path.Model.tar_check/created'),
                                 (stage_terms, 'check_stage', 'C18 copy/link: entry created by StageReference vs Path.Model.stage_name'),
                                 (list(seq_terms), 'check_seq', 'C18 sequences of references into one working directory: code of every step (staged / refused / OSError) and every entry of the directory afterwards (kind, link target) vs Path.Model.stage_seq'),
                                 (man_terms, 'check_man3', 'C18 manifests: Manifest.validate / expandPackageToDirectory (accept/reject, completion, every entry of the instance with its kind) vs Path.Model.validate / deploy_ok / deploy_fs')):
        bad = ctx.model_mismatches(HEADER, [t[0] for t in terms], checker, chunk=120, name=checker)
        for i in bad:
            ctx.disagree(terms[i][1], terms[i][2], 'model computes otherwise (see %s)' % checker, name)


def run(ctx):
    rng = ctx.rng
    ctx.rule = ('archives: 1..12 members drawn from benign trees (directories, files, inside links) with hostile insertions '
                '(parent segments, absolute names, sibling directory sharing a character prefix, links pointing outside, '
                'members extracted through links, hard links to outside files, duplicates) plus every 1-member and sampled '
                '2-member archive over a 12-name x 8-kind alphabet; manifests: 1..5 entries over nested/odd keys with hostile '
                'keys, targets inside link targets, bad methods; source folders generated per case (pkg/gen/g0, g1) holding 0..3 '
                'symbolic links at depth 0..2 (to directories / files / nothing, absolute / relative, leading outside, to a sibling '
                'source folder, to the other generated folder, or inside the folder) with a second manifest key nested on / below / '
                'next to an entry of the first target (70% a link of the source folder), in either order, with :copy and :link, and '
                'entries whose source folder is itself such a link; copy/link sources x methods; SEQUENCES of 1..4 references '
                '(copy / copyout / link / extract) staged into one working directory, via Job.stageIn and via repeated '
                'StageReference: all ordered pairs over the steps that produce the same name (file, directory, link, archive '
                'member on / below / through it), each step after each thing found in the directory (links outside / inside / '
                'dangling / looping, files, directories holding links), random longer ones; the SAME archive file referenced '
                'more than once in the process: 2..3 components with their own working directories (every archive of the '
                'colliding-name alphabets into an empty directory and into one prepared in every way that puts a link / file / '
                'directory at or on the way to the name, in both orders; archives with absolute names inside one of the '
                'directories; random ones; the file reached by its path, a symbolic link, a hard link, a copy2), and one '
                'component that references an archive again before / after every other step; non-trivial = has a link, a '
                'parent segment, an absolute name or a nested key; distinct by the canonical input')
    quick = ctx.tier == 'quick'
    tar_cases = [{'members': m, 'label': 'corpus', 'via_job': i % 2 == 0} for i, m in enumerate(CORPUS_TAR)]
    # exhaustive singles, sampled pairs
    singles = [(n, k, l) for n in SMALL_NAMES for (k, l) in SMALL_KINDS]
    for i, m in enumerate(singles):
        tar_cases.append({'members': [m], 'label': 'small-1', 'via_job': i % 3 == 0})
    for i in range(150 if quick else 2500):
        tar_cases.append({'members': [rng.choice(singles), rng.choice(singles)], 'label': 'small-2', 'via_job': i % 3 == 0})
    for i in range(120 if quick else 1500):
        tar_cases.append({'members': gen_benign(rng), 'label': 'benign', 'via_job': i % 2 == 0,
                          'fmt': rng.choice([tarfile.GNU_FORMAT, tarfile.PAX_FORMAT, tarfile.USTAR_FORMAT])})
    for i in range(330 if quick else 4000):
        tar_cases.append({'members': gen_hostile(rng), 'label': 'hostile', 'via_job': i % 2 == 0,
                          'fmt': rng.choice([tarfile.GNU_FORMAT, tarfile.PAX_FORMAT])})
    # archives staged into a directory that already holds links
    for i, (pre, ms) in enumerate(CORPUS_PRE):
        tar_cases.append({'members': ms, 'label': 'corpus-pre-existing-links', 'pre_link': pre, 'via_job': i % 2 == 0})
    for i in range(24 if quick else 200):
        pl = rng.choice([('prod', SB + '/out'), ('prod', SB + '/srcs/prod'), ('inl', 'a'), ('f.txt', SB + '/out/secret.txt')])
        nm = rng.choice([pl[0] + '/new.txt', pl[0], pl[0] + '/secret.txt', 'other.txt'])
        tar_cases.append({'members': [('a', 'dir', ''), (nm, 'file', '')], 'label': 'pre-existing-link', 'pre_link': [pl],
                          'via_job': i % 2 == 0})
    for i in range(150 if quick else 2000):
        pre, ms = gen_pre(rng)
        tar_cases.append({'members': ms, 'label': 'pre-existing-links', 'pre_link': pre, 'via_job': i % 2 == 0})
    stage_cases = [{'source': s, 'method': m, 'via_job': (i + j) % 2 == 0}
                   for i, s in enumerate(STAGE_SOURCES) for j, m in enumerate(['copy', 'link', 'copyout'])]
    # migrated components: the reference's last segment names the link made in the stage directory (sources whose last
    # segment is the name of an existing sibling are left out: os.symlink then fails before anything is created)
    stage_cases += [{'source': s, 'method': 'migrated'} for s in STAGE_SOURCES + ['srcs/work', 'srcs/work/']]
    man_cases = [{'manifest': m, 'label': 'corpus', 'dsl': dsl} for m in CORPUS_MAN for dsl in (False, True)]
    for k in KEYS_OK + KEYS_BAD:
        for s in ('src', 'src2:link'):
            man_cases.append({'manifest': [(k, s)], 'label': 'single'})
    for i in range(120 if quick else 1500):
        man_cases.append({'manifest': gen_manifest(rng, False), 'label': 'benign', 'dsl': rng.random() < 0.3})
    for i in range(240 if quick else 3000):
        man_cases.append({'manifest': gen_manifest(rng, True), 'label': 'hostile', 'dsl': rng.random() < 0.3})
    # source folders that hold links (any depth, any kind) + nested keys landing on / below them
    for i, (trees, m) in enumerate(CORPUS_TREE):
        for dsl in (False, True):
            man_cases.append({'manifest': m, 'label': 'corpus-source-links', 'dsl': dsl, 'trees': trees})
    for i in range(170 if quick else 2500):
        trees, m = gen_tree_manifest(rng)
        man_cases.append({'manifest': m, 'label': 'source-links', 'dsl': rng.random() < 0.3, 'trees': trees})
    # sequences of references staged into one working directory (drawn after everything else: the other streams keep
    # their cases): the corpus, EVERY ordered pair of steps over the alphabet of each colliding name, every step after
    # everything that may be found in the directory, and random sequences of 2..4 steps
    seq_cases = [{'pre': pre, 'seq': seq, 'label': 'corpus', 'via_job': vj} for (pre, seq) in CORPUS_SEQ for vj in (True, False)]
    for n in sorted(SEQ_STEPS):
        al = SEQ_STEPS[n]
        for i, a in enumerate(al):
            for j, b in enumerate(al):
                seq_cases.append({'pre': [], 'seq': [a, b], 'label': 'pairs', 'via_job': (i + j) % 3 == 0})
        for k, pre in enumerate(SEQ_PRE[n]):
            for i, a in enumerate(al):
                seq_cases.append({'pre': pre, 'seq': [a], 'label': 'found+1', 'via_job': (i + k) % 2 == 0})
    for i in range(120 if quick else 2500):
        pre, seq = gen_seq(rng)
        seq_cases.append({'pre': pre, 'seq': seq, 'label': 'gen', 'via_job': i % 2 == 0})
    # the same archive FILE referenced more than once in this process (drawn last: the other streams keep their cases):
    # twice by one component (every archive of the alphabets, before and after every other step; random sequences), and
    # by several components with their own directories
    for (pre, seq) in CORPUS_SHARE:
        for vj in (True, False):
            seq_cases.append({'pre': pre, 'seq': seq, 'label': 'corpus-same-archive-again', 'via_job': vj, 'share': True})
    for n in sorted(SEQ_STEPS):
        for i, a in enumerate(extract_steps(n)):
            seq_cases.append({'pre': [], 'seq': [a, a], 'label': 'same-archive-again', 'via_job': i % 2 == 0, 'share': True})
            for j, b in enumerate(SEQ_STEPS[n]):
                if b != a:
                    seq_cases.append({'pre': [], 'seq': [a, b, a], 'label': 'same-archive-again', 'via_job': False, 'share': True})
    for i in range(40 if quick else 800):
        pre, seq = gen_seq(rng)
        seq.insert(rng.randint(0, len(seq)), rng.choice([st for st in seq if st[0] == 'extract'] or extract_steps('sub')))
        seq_cases.append({'pre': pre, 'seq': seq, 'label': 'gen-same-archive-again', 'via_job': i % 4 == 0, 'share': True})
    multi_cases = [{'comps': c, 'label': 'corpus'} for c in CORPUS_MULTI]
    multi_cases += [{'comps': c, 'label': 'family'} for c in multi_family()]
    for i in range(40 if quick else 1200):
        multi_cases.append({'comps': gen_multi(rng), 'label': 'gen'})
    _explore(ctx, tar_cases, stage_cases, man_cases, seq_cases, multi_cases)
    ctx.count('cases', len(tar_cases) + len(stage_cases) + len(man_cases) + len(seq_cases) + len(multi_cases))


def replay(ctx, path):
    d = json.load(open(path))
    c = d.get('case') or d.get('first', {}).get('case')
    if not isinstance(c, dict):
        print('replay file names no input (proof obligation): re-run ./check C18')
        return 2
    canon_root = None
    tar_cases, stage_cases, man_cases = [], [], []

    canon = os.path.join(os.path.realpath(tempfile.gettempdir()), 'sb')

    def unc(s):
        return s.replace(canon, SB)
    if 'members' in c and 'seq' not in c:
        tar_cases.append({'members': [(unc(n), k, unc(l)) for n, k, l in c['members']], 'via_job': c.get('via_job', True),
                          'pre_link': [(r, unc(t)) for r, t in c['pre_link']] if c.get('pre_link') is not None else None,
                         'label': 'replay'})
    elif 'manifest' in c:
        trees = {g: [(r, k, unc(t)) for r, k, t in ents] for g, ents in c['trees'].items()} if c.get('trees') else None
        man_cases.append({'manifest': [(unc(k), unc(v)) for k, v in c['manifest']], 'label': 'replay', 'dsl': c.get('dsl', False),
                          'trees': trees})
    elif 'source' in c:
        stage_cases.append({'source': c['source'].split('/sb/', 1)[1], 'method': c['method'], 'via_job': c.get('via_job', True)})
    seq_cases, multi_cases = [], []

    def useq(q):
        return [(m, w if isinstance(w, str) else [(unc(n), k, unc(l)) for n, k, l in w]) for m, w in q]
    if 'seq' in c:
        tar_cases = []
        seq_cases.append({'pre': [(r, k, unc(t)) for r, k, t in c['pre']], 'via_job': c.get('via_job', True), 'label': 'replay',
                          'seq': useq(c['seq']), 'share': c.get('share', False)})
    if 'multi' in c:
        multi_cases.append({'label': 'replay', 'comps': [
            {'dir': m['dir'], 'pre': [(r, k, unc(t)) for r, k, t in m['pre']], 'seq': useq(m['seq']), 'via_job': m['via_job'],
             'alias': m.get('alias')} for m in c['multi']]})
    _ = canon_root
    _explore(ctx, tar_cases, stage_cases, man_cases, seq_cases, multi_cases)
    for f in ctx.failures:
        print('REPRODUCED: %s on %s' % (f['what'], json.dumps(f['case'])[:400]))
    for f in ctx.disagreements:
        print('DISAGREEMENT: %s' % (json.dumps(f, default=str)[:600],))
    return 1 if (ctx.failures or ctx.disagreements) else 0
